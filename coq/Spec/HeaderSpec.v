(* Spec for C07: the acceptance predicate in the words of the property, with field
   offsets taken from the PE/COFF specification (NOT from the generated layout), and
   the standard PE checksum (16-bit one's-complement word sum, CheckSum field
   skipped, plus the length). *)
From PV.Model Require Import Machine Mapping Headers.

(* PE/COFF specification, "MS-DOS stub", "COFF file header", "Optional header" *)
Definition DOS_SIZE : N := 64.
Definition E_LFANEW_OFF : N := 60.     (* 0x3C *)
Definition FILE_HEADER_OFF : N := 4.   (* after "PE\0\0" *)
Definition FILE_HEADER_SIZE : N := 20.
Definition NSEC_OFF : N := 2.          (* NumberOfSections in the COFF header *)
Definition OPTSZ_OFF : N := 16.        (* SizeOfOptionalHeader *)
Definition OPT_OFF : N := 24.          (* 4 + 20 *)
Definition SOI_OFF : N := 56.  Definition SOH_OFF : N := 60.  Definition CSUM_OFF : N := 64.
Definition NRVA_OFF (is64 : bool) : N := if is64 then 108 else 92.
Definition BASE_OFF (is64 : bool) : N := if is64 then 24 else 28.
Definition OPT_FIXED_SIZE (is64 : bool) : N := if is64 then 112 else 96.
Definition MAGIC (is64 : bool) : N := if is64 then 523 else 267.   (* 0x20b / 0x10b *)
Definition SEC_SIZE : N := 40.  Definition DIR_SIZE : N := 8.  Definition MAX_DIRS : N := 16.

Definition s_e_lfanew (m : mem) : N := rd32 m E_LFANEW_OFF.
Definition s_magic (m : mem) : N := rd16 m (s_e_lfanew m + OPT_OFF).
Definition s_soi (m : mem) : N := rd32 m (s_e_lfanew m + OPT_OFF + SOI_OFF).
Definition s_soh (m : mem) : N := rd32 m (s_e_lfanew m + OPT_OFF + SOH_OFF).
Definition s_nrva (is64 : bool) (m : mem) : N := rd32 m (s_e_lfanew m + OPT_OFF + NRVA_OFF is64).
Definition s_nsec (m : mem) : N := rd16 m (s_e_lfanew m + FILE_HEADER_OFF + NSEC_OFF).
Definition s_optsz (m : mem) : N := rd16 m (s_e_lfanew m + FILE_HEADER_OFF + OPTSZ_OFF).

(* The conjunction the property lists. *)
Definition accept (is64 : bool) (m : mem) : Prop :=
  DOS_SIZE <= m_len m /\ m_addr m mod 4 = 0 /\
  rd16 m 0 = 23117 (* "MZ" *) /\
  s_e_lfanew m mod 4 = 0 /\ s_e_lfanew m <= 16777216 /\
  s_e_lfanew m + OPT_OFF + OPT_FIXED_SIZE is64 <= m_len m /\
  rd32 m (s_e_lfanew m) = 17744 (* "PE\0\0" *) /\
  (s_magic m = 267 \/ s_magic m = 523) /\
  s_soh m <= m_len m /\ s_soh m <= s_soi m /\
  s_magic m = MAGIC is64 /\
  s_e_lfanew m + OPT_OFF + OPT_FIXED_SIZE is64 + DIR_SIZE * N.min (s_nrva is64 m) MAX_DIRS <= m_len m /\
  s_nsec m <= 96 /\
  s_e_lfanew m + OPT_OFF + s_optsz m + SEC_SIZE * s_nsec m <= m_len m /\
  (s_e_lfanew m + OPT_OFF + s_optsz m) mod 4 = 0.

(* the same as a decision procedure returning the first failing clause's error, for the oracle *)
Definition acceptb (is64 : bool) (m : mem) : bool :=
  (DOS_SIZE <=? m_len m) && (m_addr m mod 4 =? 0) && (rd16 m 0 =? 23117) &&
  (s_e_lfanew m mod 4 =? 0) && (s_e_lfanew m <=? 16777216) &&
  (s_e_lfanew m + OPT_OFF + OPT_FIXED_SIZE is64 <=? m_len m) &&
  (rd32 m (s_e_lfanew m) =? 17744) && ((s_magic m =? 267) || (s_magic m =? 523)) &&
  (s_soh m <=? m_len m) && (s_soh m <=? s_soi m) && (s_magic m =? MAGIC is64) &&
  (s_e_lfanew m + OPT_OFF + OPT_FIXED_SIZE is64 + DIR_SIZE * N.min (s_nrva is64 m) MAX_DIRS <=? m_len m) &&
  (s_nsec m <=? 96) && (s_e_lfanew m + OPT_OFF + s_optsz m + SEC_SIZE * s_nsec m <=? m_len m) &&
  ((s_e_lfanew m + OPT_OFF + s_optsz m) mod 4 =? 0).

(* everything but the bitness: the image is structurally a PE of the OTHER format *)
Definition other_format (is64 : bool) (m : mem) : bool := acceptb (negb is64) m.

(* ---- the standard PE checksum ---- *)
(* 16-bit little-endian words of the buffer, the last one zero-padded; word index k is bytes 2k, 2k+1 *)
Definition word_at (m : mem) (k : N) : N :=
  (if 2 * k <? m_len m then m_get m (2 * k) else 0) + 256 * (if 2 * k + 1 <? m_len m then m_get m (2 * k + 1) else 0).
Definition step16 (acc w : N) : N := let s := acc + w in (s mod 65536) + s / 65536.   (* end-around carry *)
Fixpoint sum_words (m : mem) (skip : N) (k : N) (n : nat) (acc : N) : N :=
  match n with
  | O => acc
  | S j => sum_words m skip (k + 1) j (if (k =? skip) || (k =? skip + 1) then acc else step16 acc (word_at m k))
  end.
(* skip = word index of the CheckSum field (two words) *)
Definition pe_checksum (is64 : bool) (m : mem) : N :=
  let skip := (s_e_lfanew m + OPT_OFF + CSUM_OFF) / 2 in
  (sum_words m skip 0 (N.to_nat ((m_len m + 1) / 2)) 0 + m_len m) mod W32.
