(* Spec for C20: the maximal printable runs of a byte string and which of them qualify. *)
From PV.Model Require Import Machine Strings.

(* TAB, LF, CR and space through tilde *)
Definition printable (b : N) : bool := (b =? 9) || (b =? 10) || (b =? 13) || ((32 <=? b) && (b <=? 126)).

Inductive term := TNul | TOther | TEnd.
Record run := { r_start : N; r_len : N; r_term : term }.

(* split the string at every non-printable byte: each such byte terminates the (possibly
   empty) run before it; what is left at the end of the buffer is a run only if non-empty *)
Fixpoint runs_aux (bs : list N) (start len : N) : list run :=
  match bs with
  | [] => if len =? 0 then [] else [{| r_start := start; r_len := len; r_term := TEnd |}]
  | b :: t =>
    if printable b then runs_aux t start (len + 1)
    else {| r_start := start; r_len := len; r_term := if b =? 0 then TNul else TOther |} :: runs_aux t (start + len + 1) 0
  end.
Definition runs (bs : list N) : list run := runs_aux bs 0 0.

(* the length rule for the termination kind and the NUL policy *)
Definition qualifies (c : cfg) (r : run) : bool :=
  match r_term r with
  | TNul => min_len_nul c <=? r_len r
  | _ => negb (strict c) && (min_len c <=? r_len r)
  end.
Definition found_of (base : N) (r : run) : found :=
  {| f_start := r_start r; f_len := r_len r; f_addr := (base + r_start r) mod W32;
     f_nul := match r_term r with TNul => true | _ => false end |}.
Definition enumerate_spec (c : cfg) (base : N) (bs : list N) : list found :=
  map (found_of base) (filter (qualifies c) (runs bs)).

Definition found_eqb (a b : found) : bool :=
  (f_start a =? f_start b) && (f_len a =? f_len b) && (f_addr a =? f_addr b) && Bool.eqb (f_nul a) (f_nul b).
Fixpoint founds_eqb (a b : list found) : bool :=
  match a, b with [], [] => true | x :: a', y :: b' => found_eqb x y && founds_eqb a' b' | _, _ => false end.
