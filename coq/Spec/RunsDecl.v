(* Declarative reading of C20: what a maximal printable run of a byte string IS, stated
   position by position over the bytes, without any scanner.  Nothing here mentions
   [runs] / [runs_aux] of Spec/Runs.v; Proofs/StringsDecl.v proves that [runs] lists exactly
   the objects defined here. *)
From PV.Model Require Import Machine Strings.
From PV.Spec Require Import Runs.

(* [byte_at bs k] (Model/Machine.v) = nth (N.to_nat k) bs 0: the byte at position k, counted from 0;
   below it is only ever constrained at positions k < length bs *)

(* what follows a run that ends at position e: the end of the buffer, a NUL, or another non-printable byte *)
Definition term_at (bs : list N) (e : N) (t : term) : Prop :=
  match t with
  | TEnd => e = lenN bs
  | TNul => e < lenN bs /\ byte_at bs e = 0
  | TOther => e < lenN bs /\ byte_at bs e <> 0 /\ printable (byte_at bs e) = false
  end.

(* nothing printable directly before position s *)
Definition left_delimited (bs : list N) (s : N) : Prop :=
  s = 0 \/ (0 < s /\ printable (byte_at bs (s - 1)) = false).

(* [s, s+l) is a maximal run of printable bytes of bs, followed by t *)
Definition is_maximal_run (bs : list N) (s l : N) (t : term) : Prop :=
  0 < l /\
  (forall k, s <= k -> k < s + l -> printable (byte_at bs k) = true) /\
  left_delimited bs s /\
  term_at bs (s + l) t.

(* the degenerate case that only matters for a threshold of 0: a non-printable byte at s
   with nothing printable directly before it delimits an empty run at s *)
Definition is_empty_run (bs : list N) (s : N) (t : term) : Prop :=
  left_delimited bs s /\ term_at bs s t /\ t <> TEnd.

(* the threshold rule: a run followed by NUL needs min_length_nul bytes; any other run is
   reported only when strict_nul is off and needs min_length bytes *)
Definition meets (c : cfg) (l : N) (t : term) : Prop :=
  match t with
  | TNul => min_len_nul c <= l
  | _ => strict c = false /\ min_len c <= l
  end.

(* the item reported for the run (s, l, t) *)
Definition item (base s l : N) (t : term) : found :=
  {| f_start := s; f_len := l; f_addr := (base + s) mod W32;
     f_nul := match t with TNul => true | _ => false end |}.

(* f is the item of a maximal printable run of bs that meets the threshold rule *)
Definition reported_maximal (c : cfg) (base : N) (bs : list N) (f : found) : Prop :=
  exists s l t, is_maximal_run bs s l t /\ meets c l t /\ f = item base s l t.

(* the same including the empty runs (they can only meet a threshold of 0) *)
Definition reported (c : cfg) (base : N) (bs : list N) (f : found) : Prop :=
  reported_maximal c base bs f \/
  exists s t, is_empty_run bs s t /\ meets c 0 t /\ f = item base s 0 t.

(* ascending without overlap: b starts after the byte that terminates a *)
Definition run_lt (a b : run) : Prop := r_start a + r_len a < r_start b.
Definition found_lt (a b : found) : Prop := f_start a + f_len a < f_start b.
