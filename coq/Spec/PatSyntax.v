(* Spec/PatSyntax.v - the documented pattern syntax (src/proc-macros/pattern.rs, doc comment of `parse`) as an AST,
   with a printer [show] of a canonical spelling (two-digit uppercase hex, decimal numbers without leading zeros,
   single spaces between items) and the INTENDED compiler [compile] from the AST to atoms.

   The compiler is structural: an item appends its atoms to what precedes it; the only context-dependence is the
   one the documentation implies for wildcards ("[n] is equivalent to writing n consecutive question marks"): a
   question mark extends a directly preceding skip (up to 255 per atom), except right after a closing parenthesis.
   Alternatives are compiled each on their own (slot numbering restarts where the group started and continues from
   the maximum) and laid out as  Case k1, alt1, Break e1, Case k2, alt2, Break e2, ..., Nop, altn.
   Trailing atoms that cannot influence the verdict position (skips, range skips, returns) are trimmed at top level. *)
From PV.Model Require Export Machine Pattern.

Inductive jkind := J1 | J4 | JP.                               (* %  $  * *)
Inductive rkind := RI8 | RU8 | RI16 | RU16 | RI32 | RU32.      (* i1 u1 i2 u2 i4 u4 *)

Inductive item :=
| IByte (b : N)                       (* two hex digits *)
| IStr (s : list N)                   (* "..." *)
| IWild (n : nat)                     (* n question marks *)
| ISkip (n : N)                       (* [n] *)
| IRange (a b : N)                    (* [a-b] : skips a <= k < b bytes (F35) *)
| ISave                               (* ' *)
| IRead (r : rkind)                   (* i1 i2 i4 u1 u2 u4 *)
| IZero                               (* z *)
| IAlign (k : N)                      (* @k *)
| IJump (j : jkind)                   (* plain % $ * : what follows in the sequence is matched at the target *)
| ISub (j : jkind) (sub : list item)  (* j { sub } : sub is matched at the target, then matching resumes after the operand *)
| IAlt (a : list item) (more : list (list item)).   (* ( a | more ... ) *)

(* ---------------------------------------------------------------- the printer *)
Definition hexc (d : N) : N := if d <? 10 then 48 + d else 55 + d.         (* 0-9 A-F *)
Definition digc (d : N) : N := 48 + d.
Definition digits (n : N) : list N :=                                      (* decimal, no leading zeros, n < 100000 *)
  (if 10000 <=? n then [n / 10000] else []) ++
  (if 1000 <=? n then [(n / 1000) mod 10] else []) ++
  (if 100 <=? n then [(n / 100) mod 10] else []) ++
  (if 10 <=? n then [(n / 10) mod 10] else []) ++ [n mod 10].
Definition show_dec (n : N) : list N := map digc (digits n).
Definition jchar (j : jkind) : N := match j with J1 => 37 | J4 => 36 | JP => 42 end.
Definition rchars (r : rkind) : list N :=
  match r with RI8 => [105; 49] | RU8 => [117; 49] | RI16 => [105; 50] | RU16 => [117; 50] | RI32 => [105; 52] | RU32 => [117; 52] end.
Definition alignc (k : N) : N := if k <? 10 then 48 + k else 55 + k.       (* 0-9 A-Z *)

Fixpoint show_item (it : item) : list N :=
  match it with
  | IByte b => [hexc (b / 16); hexc (b mod 16)]
  | IStr s => 34 :: s ++ [34]
  | IWild n => repeat 63 n
  | ISkip n => 91 :: show_dec n ++ [93]
  | IRange a b => 91 :: show_dec a ++ 45 :: show_dec b ++ [93]
  | ISave => [39]
  | IRead r => rchars r
  | IZero => [122]
  | IAlign k => [64; alignc k]
  | IJump j => [jchar j]
  | ISub j sub => jchar j :: 32 :: 123 :: 32 :: flat_map (fun x => show_item x ++ [32]) sub ++ [125]
  | IAlt a more =>
    40 :: 32 :: flat_map (fun x => show_item x ++ [32]) a
      ++ flat_map (fun alt => 124 :: 32 :: flat_map (fun x => show_item x ++ [32]) alt) more ++ [41]
  end.
(* inside braces and parentheses: every item is followed by one space *)
Definition show_seq (l : list item) : list N := flat_map (fun x => show_item x ++ [32]) l.
(* top level: items separated by single spaces *)
Fixpoint show (l : list item) : list N :=
  match l with
  | [] => []
  | x :: t => match t with [] => show_item x | _ :: _ => show_item x ++ 32 :: show t end
  end.

(* ---------------------------------------------------------------- the intended compiler *)
(* what has been emitted so far, the next free save slot, and whether a group has just been closed *)
Record cst := { c_res : list atom; c_save : N; c_closed : bool }.

Definition emit (c : cst) (l : list atom) : cst :=
  {| c_res := c_res c ++ l; c_save := c_save c; c_closed := match l with [] => c_closed c | _ :: _ => false end |}.
Definition emit_slot (c : cst) (mk : N -> atom) : cst :=
  {| c_res := c_res c ++ [mk (c_save c)]; c_save := c_save c + 1; c_closed := false |}.

(* one question mark *)
Definition wild1 (c : cst) : cst :=
  match last_atom (c_res c) with
  | Some (Skip k) =>
    if negb (c_closed c) && negb (k =? 0) && (k <? 255)
    then {| c_res := set_last (c_res c) (Skip (k + 1)); c_save := c_save c; c_closed := false |}
    else emit c [Skip 1]
  | _ => emit c [Skip 1]
  end.

Definition skip_atoms (n : N) : list atom :=
  if n =? 0 then [] else (if 256 <=? n then [Rangext (n / 256)] else []) ++ [Skip (n mod 256)].
Definition many_atoms (m : N) : list atom :=
  (if 256 <=? m then [Rangext (m / 256)] else []) ++ [Many (m mod 256)].
Definition jatom (j : jkind) : atom := match j with J1 => Jump1 | J4 => Jump4 | JP => Ptr end.
Definition jpush (j : jkind) : N := match j with J1 => 1 | J4 => 4 | JP => 0 end.   (* 0 = pointer size *)
Definition ratom (r : rkind) (s : N) : atom :=
  match r with RI8 => ReadI8 s | RU8 => ReadU8 s | RI16 => ReadI16 s | RU16 => ReadU16 s | RI32 => ReadI32 s | RU32 => ReadU32 s end.

(* Case k1, L1, Break e1, Case k2, L2, Break e2, ..., Nop, Ln *)
Fixpoint alt_code (ls : list (list atom)) : list atom :=
  match ls with
  | [] => []
  | l :: t =>
    match t with
    | [] => Nop :: l
    | _ :: _ => let r := alt_code t in Case (N.of_nat (length l + 1)) :: l ++ Break (N.of_nat (length r)) :: r
    end
  end.

Fixpoint comp_item (it : item) (c : cst) {struct it} : cst :=
  match it with
  | IByte b => emit c [Byte b]
  | IStr s => emit c (map Byte s)
  | IWild n => Nat.iter n wild1 c
  | ISkip n => emit c (skip_atoms n)
  | IRange a b => emit c (skip_atoms a ++ many_atoms (b - a))
  | ISave => emit_slot c Save
  | IRead r => emit_slot c (ratom r)
  | IZero => emit_slot c Zero
  | IAlign k => emit c [Aligned k]
  | IJump j => emit c [jatom j]
  | ISub j sub => emit (fold_left (fun c x => comp_item x c) sub (emit c [Push (jpush j); jatom j])) [Pop]
  | IAlt a more =>
    let fresh := {| c_res := []; c_save := c_save c; c_closed := false |} in
    let cs := fold_left (fun c x => comp_item x c) a fresh
              :: map (fun alt => fold_left (fun c x => comp_item x c) alt fresh) more in
    {| c_res := c_res c ++ alt_code (map c_res cs); c_save := fold_right N.max 0 (map c_save cs); c_closed := true |}
  end.
Definition comp_seq (l : list item) (c : cst) : cst := fold_left (fun c x => comp_item x c) l c.

Definition cinit : cst := {| c_res := [Save 0]; c_save := 1; c_closed := false |}.
Definition compile (l : list item) : list atom := trim (c_res (comp_seq l cinit)).

(* ---------------------------------------------------------------- well-formed ASTs *)
(* every jump offset of a group fits a byte *)
Fixpoint alt_ok (ls : list (list atom)) : Prop :=
  match ls with
  | [] => True
  | l :: t => match t with [] => True | _ :: _ => (length l + 1 < 256)%nat /\ (length (alt_code t) < 256)%nat /\ alt_ok t end
  end.

Fixpoint wf_item (it : item) (c : cst) {struct it} : Prop :=
  match it with
  | IByte b => b < 256
  | IStr s => Forall (fun ch => ch < 256 /\ ch <> 34) s
  | IWild _ => True
  | ISkip n => n < 16384
  | IRange a b => a < b /\ b < 16384
  | ISave | IRead _ | IZero => c_save c < 255
  | IAlign k => k < 36
  | IJump _ => True
  | ISub j sub =>
    (fix go (l : list item) (c : cst) : Prop :=
       match l with [] => True | x :: t => wf_item x c /\ go t (comp_item x c) end) sub (emit c [Push (jpush j); jatom j])
  | IAlt a more =>
    let go := (fix go (l : list item) (c : cst) : Prop :=
       match l with [] => True | x :: t => wf_item x c /\ go t (comp_item x c) end) in
    let fresh := {| c_res := []; c_save := c_save c; c_closed := false |} in
    go a fresh /\
    (fix gos (ls : list (list item)) : Prop := match ls with [] => True | alt :: t => go alt fresh /\ gos t end) more /\
    alt_ok (map c_res (comp_seq a fresh :: map (fun alt => comp_seq alt fresh) more))
  end.
Fixpoint wf_seq (l : list item) (c : cst) : Prop :=
  match l with [] => True | x :: t => wf_item x c /\ wf_seq t (comp_item x c) end.
Definition wf (l : list item) : Prop := wf_seq l cinit.

(* the fragment without braces and alternatives *)
Definition flat_item (it : item) : bool := match it with ISub _ _ | IAlt _ _ => false | _ => true end.
Definition flat (l : list item) : bool := forallb flat_item l.

(* ---------------------------------------------------------------- examples: the printer and the compiler against the
   unit tests of pattern.rs and the documentation examples; [parse] is the model of the real parser *)
Definition str (l : list N) := l.
Example ex_doc1 : let a := [IByte 0x55; IByte 0x89; IByte 0xe5; IByte 0x83; IWild 1; IByte 0xec] in
  show a = [53;53;32;56;57;32;69;53;32;56;51;32;63;32;69;67] /\ parse (show a) = Ok (inr (compile a)) /\
  compile a = [Save 0; Byte 0x55; Byte 0x89; Byte 0xe5; Byte 0x83; Skip 1; Byte 0xec].
Proof. vm_compute. repeat split. Qed.
Example ex_doc2 : let a := [IByte 0xb8; ISkip 16; IByte 0x50; IRange 13 42; IByte 0xff] in
  parse (show a) = Ok (inr (compile a)) /\ compile a = [Save 0; Byte 0xb8; Skip 16; Byte 0x50; Skip 13; Many 29; Byte 0xff].
Proof. vm_compute. repeat split. Qed.
Example ex_doc3 : let a := [IByte 0xe8; ISub J4 [ISave]; IByte 0x83; IByte 0xf0; IByte 0x5c; IByte 0xc3] in
  parse (show a) = Ok (inr (compile a)) /\
  compile a = [Save 0; Byte 0xe8; Push 4; Jump4; Save 1; Pop; Byte 0x83; Byte 0xf0; Byte 0x5c; Byte 0xc3].
Proof. vm_compute. repeat split. Qed.
Example ex_doc4 : let a := [IByte 0x83; IByte 0xc0; IByte 0x2a; IAlt [IByte 0x6a; IWild 1] [[IByte 0x68; IWild 4]]; IByte 0xe8] in
  parse (show a) = Ok (inr (compile a)) /\
  compile a = [Save 0; Byte 0x83; Byte 0xc0; Byte 0x2a; Case 3; Byte 0x6a; Skip 1; Break 3; Nop; Byte 0x68; Skip 4; Byte 0xe8].
Proof. vm_compute. repeat split. Qed.
Example ex_misc :
  Forall (fun a => parse (show a) = Ok (inr (compile a)))
   [ [IByte 0xb9; ISave; IByte 0x37; IByte 0x13; IByte 0; IByte 0];
     [IByte 0x31; IByte 0xc0; IByte 0x74; IJump J1; ISave; IByte 0xc3];
     [IByte 0x68; IJump JP; ISave; IByte 0x31];
     [IByte 0xb8; IJump JP; IStr [83;84;82]; IByte 0];
     [IByte 0xe8; IJump J4; IAlign 4];
     [IByte 0xe8; IRead RI8; IByte 0xa0; IRead RU32; IZero; IAlign 35];
     [IByte 1; ISkip 5; IWild 3; ISkip 256; IWild 1; ISkip 255; IWild 2; ISkip 0; IWild 1; IByte 2];
     [IByte 1; IWild 300; IByte 2; IRange 0 300; IByte 3; IRange 300 16383; IByte 4; ISkip 700; IWild 2];
     [IByte 1; IAlt [IByte 2; IWild 1] [[IByte 3]; []]; IWild 2; ISkip 0; IWild 1; IStr []; IByte 9];
     [IByte 1; ISub JP [IAlt [ISave; ISave] [[IRead RU16]; [IZero; ISave; ISave]]; ISave]; ISave; IWild 2];
     [IAlt [IAlt [IByte 1] [[IByte 2; IRange 1 3]]; IWild 1] [[ISub J1 [IWild 1]; IWild 1]]; IWild 1; IByte 7; ISub J4 [ISave]];
     [ISave; IWild 1; IRange 2 9]; [] ].
Proof. repeat (constructor; [vm_compute; reflexivity|]). constructor. Qed.
