(* Spec for C09: the loop-free reading of the import directory, the per-DLL tables,
   thunk decoding and the image-wide IAT, over the closed forms of slicing (Spec/ViewSpec.v,
   Spec/MappingSpec.v) and explicit format constants of the PE/COFF specification.
   Everything here is executable: it is extracted and evaluated on the implementation's
   observations.  The declarative (Prop) readings used by the theorems are at the end. *)
From PV.Model Require Import Machine Mapping Views Headers Imports.
From PV.Spec Require Import MappingSpec ViewSpec.

(* ---- format constants (PE/COFF specification, not taken from the source) ---- *)
Definition DESC_SIZE : N := 20.          (* Import Directory Table entry *)
Definition OFF_ILT : N := 0.             (* Import Lookup Table RVA (OriginalFirstThunk) *)
Definition OFF_NAME : N := 12.           (* Name RVA *)
Definition OFF_IAT : N := 16.            (* Import Address Table RVA (FirstThunk) *)
Definition DIR_IMPORT : N := 1.
Definition DIR_IAT : N := 12.
Definition DIR_SLOTS : N := 16.
(* offset of the data directories from the PE signature: 4 + 20 + 96 (PE32) / 112 (PE32+) *)
Definition dd_offset (p : pe) : N :=
  le_value (p_get p) 60 4 + 24 + (if f_64 (p_f p) then 112 else 96).
Definition nrva_spec (p : pe) : N := le_value (p_get p) (dd_offset p - 4) 4.
Definition thunk_size (p : pe) : N := if f_64 (p_f p) then 8 else 4.
Definition thunk_top (p : pe) : N := if f_64 (p_f p) then 2 ^ 63 else 2 ^ 31.

(* directory i exists iff i < NumberOfRvaAndSizes and i < 16; its (RVA, Size) as stored *)
Definition dir_spec (p : pe) (i : N) : option (N * N) :=
  if (i <? nrva_spec p) && (i <? DIR_SLOTS)
  then Some (le_value (p_get p) (dd_offset p + 8 * i) 4, le_value (p_get p) (dd_offset p + 8 * i + 4) 4)
  else None.

(* least k < n with q k *)
Fixpoint least_from (q : N -> bool) (k : N) (n : nat) : option N :=
  match n with
  | O => None
  | S m => if q k then Some k else least_from q (k + 1) m
  end.
Definition least (q : N -> bool) (n : N) : option N := least_from q 0 (N.to_nat n).

(* dword field at byte offset o of descriptor k of an array starting at buffer offset off *)
Definition desc_field (get : N -> N) (off k o : N) : N := le_value get (off + DESC_SIZE * k + o) 4.
(* thunk k of an array of w-byte thunks *)
Definition thunk_spec (get : N -> N) (off w k : N) : N := le_value get (off + w * k) (N.to_nat w).

(* an array of [w]-byte items at rva, aligned to [al], ending before the first item satisfying q:
   the longest prefix of whole items before it; Bounds if the bytes available at rva hold no such item *)
Definition terminated_spec (v : view) (rva w al : N) (q : N -> N -> bool) : res region :=
  match slice_spec v rva 0 al with
  | Ok r => match least (q (r_off r)) (r_len r / w) with
            | Some n => Ok {| r_off := r_off r; r_len := w * n |}
            | None => Err EBounds
            end
  | Err e => Err e
  | Fault f => Fault f
  end.

(* 1. the import directory *)
Definition imports_spec (p : pe) : res region :=
  match dir_spec p DIR_IMPORT with
  | None => Err EBounds
  | Some (rva, _) =>
    terminated_spec (p_v p) rva DESC_SIZE 4 (fun off k => desc_field (p_get p) off k OFF_IAT =? 0)
  end.

(* 2. DLL name and the two thunk tables of a descriptor *)
Definition c_string_spec (p : pe) (rva : N) : res region := c_str_spec (p_get p) (slice_spec (p_v p)) rva.
Definition thunks_spec (p : pe) (rva : N) : res region :=
  terminated_spec (p_v p) rva (thunk_size p) (thunk_size p) (fun off k => thunk_spec (p_get p) off (thunk_size p) k =? 0).

(* 3. thunk decoding *)
Definition import_spec (p : pe) (t : N) : res import :=
  if thunk_top p <=? t then Ok (ByOrdinal (t mod 2 ^ 16))
  else
    let rva := t mod 2 ^ 32 in
    match slice_spec (p_v p) rva 2 2 with
    | Ok h =>
      if 2 ^ 32 <=? rva + 2 then Err EOverflow else     (* the name would start beyond the 32-bit rva space *)
      match c_string_spec p (rva + 2) with
      | Ok nm => Ok (ByName (le_value (p_get p) (r_off h) 2) nm)
      | Err e => Err e
      | Fault f => Fault f
      end
    | Err e => Err e
    | Fault f => Fault f
    end.

(* 4. the image-wide IAT: Size / pointer-size entries at the directory RVA *)
Definition iat_spec (p : pe) : res region :=
  match dir_spec p DIR_IAT with
  | None => Err EBounds
  | Some (rva, size) =>
    let n := size / thunk_size p in
    match slice_spec (p_v p) rva (thunk_size p * n) (thunk_size p) with
    | Ok r => Ok {| r_off := r_off r; r_len := thunk_size p * n |}
    | Err e => Err e
    | Fault f => Fault f
    end
  end.

(* ---- comparison helpers for the extracted oracle ---- *)
Definition import_eqb (a b : import) : bool :=
  match a, b with
  | ByName h n, ByName h' n' => (h =? h') && region_eqb n n'
  | ByOrdinal o, ByOrdinal o' => o =? o'
  | _, _ => false
  end.
Definition resI_eqb (a b : res import) : bool :=
  match a, b with
  | Ok x, Ok y => import_eqb x y
  | Err e, Err f => error_eqb e f
  | _, _ => false
  end.

(* ---- declarative readings ---- *)
(* n is the index of the first item satisfying q among the items that lie wholly inside blen bytes *)
Definition first_item (q : N -> bool) (w blen n : N) : Prop :=
  (n + 1) * w <= blen /\ q n = true /\ forall k, k < n -> q k = false.
Definition no_item (q : N -> bool) (w blen : N) : Prop :=
  forall k, (k + 1) * w <= blen -> q k = false.
(* what a terminated array read may return, given the untyped slice [s] at its address *)
Definition terminated_post (q : N -> N -> bool) (w : N) (s : res region) (out : res region) : Prop :=
  match s with
  | Ok r =>
    match out with
    | Ok x => exists n, x = {| r_off := r_off r; r_len := w * n |} /\ first_item (q (r_off r)) w (r_len r) n
    | Err e => e = EBounds /\ no_item (q (r_off r)) w (r_len r)
    | Fault _ => False
    end
  | Err e => out = Err e
  | Fault f => out = Fault f
  end.

Definition all_zero (get : N -> N) (off k : N) : Prop :=
  forall o, o < DESC_SIZE -> get (off + DESC_SIZE * k + o) = 0.
(* every descriptor before the all-zero terminator (descriptor n) has a non-zero FirstThunk *)
Definition wf_import_dir (get : N -> N) (off blen n : N) : Prop :=
  (n + 1) * DESC_SIZE <= blen /\ all_zero get off n /\
  forall k, k < n -> desc_field get off k OFF_IAT <> 0.
