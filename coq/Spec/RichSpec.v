(* Spec for C16: the Rich header layout, its checksum as a closed formula, and the
   known format ambiguity (class records_contain_false_header / key_is_zero). *)
From PV.Model Require Import Machine Rich.

Definition sumN (l : list N) : N := fold_right N.add 0 l.

(* contribution of dword number j of the stub (byte offsets 4j..4j+3); the e_lfanew field (offset 0x3c) counts as zero *)
Definition stub_term (j : nat) (d : N) : N :=
  let i := 4 * N.of_nat j in
  let d := if i =? 60 then 0 else d in
  rotl32 (d mod 256) i + rotl32 ((d / 256) mod 256) (i + 1) + rotl32 ((d / 65536) mod 256) (i + 2)
  + rotl32 ((d / 16777216) mod 256) (i + 3).
Fixpoint stub_terms (j : nat) (stub : list N) : list N :=
  match stub with [] => [] | d :: t => stub_term j d :: stub_terms (S j) t end.
Definition rec_term (r : rec) : N := rotl32 (r_product r * 65536 + r_build r) (r_count r).

(* checksum = size of the stub in bytes + rotated stub bytes + rotated record values, modulo 2^32 *)
Definition rich_checksum (stub : list N) (recs : list rec) : N :=
  (4 * lenN stub + sumN (stub_terms 0 stub) + sumN (map rec_term recs)) mod W32.

Definition rec_ok (r : rec) : Prop := r_build r < 65536 /\ r_product r < 65536 /\ r_count r < W32.
Definition rec_okb (r : rec) : bool := (r_build r <? 65536) && (r_product r <? 65536) && (r_count r <? W32).
Definition rec_eqb (a b : rec) : bool :=
  (r_build a =? r_build b) && (r_product a =? r_product b) && (r_count a =? r_count b).
Fixpoint recs_eqb (a b : list rec) : bool :=
  match a, b with [], [] => true | x :: a', y :: b' => rec_eqb x y && recs_eqb a' b' | _, _ => false end.

(* Known class (F20): the encoded record stream itself contains the 4-word header pattern at a
   record boundary, so the backward scan stops early; or the key is zero, which is
   indistinguishable from padding.  Both are ambiguities of the format, not of the code. *)
Definition hdr4 (x : N) (l : list N) : bool :=
  match l with
  | a :: b :: c :: d :: _ => (a =? N.lxor DANS x) && (b =? x) && (c =? x) && (d =? x)
  | _ => false
  end.
(* the header pattern at one of the first n even offsets of l *)
Fixpoint hdr_within (n : nat) (x : N) (l : list N) : bool :=
  match n with O => false | S k => hdr4 x l || hdr_within k x (skipn 2 l) end.
Definition false_header (key : N) (recs : list rec) : bool :=
  (* every even offset after the true header: key key | records | Rich key *)
  hdr_within (length recs + 2) key (skipn 2 (write_words key recs)).
Definition known_class (key : N) (recs : list rec) : bool := (key =? 0) || false_header key recs.

(* the structure every accepted DOS area has *)
Definition well_formed (img : list N) (s e : nat) : Prop :=
  (16 <= s)%nat /\ (s + 6 <= e)%nat /\ (e <= length img)%nat /\ Nat.even (e - s) = true /\
  header_at img (dw img (e - 1)) s = true /\ dw img (e - 2) = RICH /\ dw img (e - 1) <> 0 /\
  (forall j, (e <= j)%nat -> (j < length img)%nat -> dw img j = 0).

(* executable form of [well_formed] for the oracle *)
Definition well_formedb (img : list N) (s e : nat) : bool :=
  Nat.leb 16 s && Nat.leb (s + 6) e && Nat.leb e (length img) && Nat.even (e - s)
  && header_at img (dw img (e - 1)) s && (dw img (e - 2) =? RICH) && negb (dw img (e - 1) =? 0)
  && forallb (fun j => dw img j =? 0) (seq e (length img - e)).
