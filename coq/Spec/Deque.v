(* Spec for C18: a deque holding the plain front-to-back sequence of an iterator's items,
   the calls of the property text (and nth_back) as operations on it, and histories of such calls over a
   pool of iterators (slot 0 is the iterator handed out by the library; [Clone] appends a
   copy of a slot to the pool, so that a history can continue on the clone and on the
   original in any interleaving).

   Nothing here mentions an implementation: the state is the list of items. *)
From PV.Model Require Export Machine.   (* only the vocabulary: N, lists, lenN *)

(* the calls of the property text; [Count] is [it.clone().count()] (count takes self by
   value, so the iterator it was called on cannot be observed afterwards).
   [NthBack k] is DoubleEndedIterator::nth_back(k): not named in the property text, but callable on every
   double-ended iterator the library hands out (it is the mirror image of [Nth]) *)
Inductive op := Next | NextBack | Nth (k : N) | Len | SizeHint | Count | Clone | NthBack (k : N).
Definition is_clone (o : op) : bool := match o with Clone => true | _ => false end.

Section Deque.
  Context {A : Type}.

  Inductive out :=
  | ONone | OItem (a : A) | ONum (n : N) | OHint (lo : N) (hi : option N)
  | OCloned | ONoIter | OUnsupported.

  Definition dq_next (l : list A) : list A * out :=
    match l with [] => ([], ONone) | x :: t => (t, OItem x) end.
  Definition dq_next_back (l : list A) : list A * out :=
    match rev l with [] => ([], ONone) | x :: t => (rev t, OItem x) end.
  (* nth k: drop k items, then next; an iterator with at most k items is left exhausted *)
  Definition dq_nth (l : list A) (k : N) : list A * out :=
    if lenN l <=? k then ([], ONone) else dq_next (skipn (N.to_nat k) l).

  (* nth_back k: drop k items from the back, then next_back; an iterator with at most k items is left exhausted *)
  Definition dq_nth_back (l : list A) (k : N) : list A * out :=
    if lenN l <=? k then ([], ONone) else dq_next_back (firstn (length l - N.to_nat k) l).

  (* [full]: the iterator is double-ended and exact-size (RichIter, imports::Iter, debug::Iter);
     otherwise next_back, nth_back and len do not exist and the size hint only has to be a valid bound *)
  Definition step1 (full : bool) (l : list A) (o : op) : list A * out :=
    match o with
    | Next => dq_next l
    | NextBack => if full then dq_next_back l else (l, OUnsupported)
    | Nth k => dq_nth l k
    | Len => if full then (l, ONum (lenN l)) else (l, OUnsupported)
    | SizeHint => (l, OHint (lenN l) (Some (lenN l)))
    | Count => (l, ONum (lenN l))
    | Clone => (l, OCloned)
    | NthBack k => if full then dq_nth_back l k else (l, OUnsupported)
    end.

  Fixpoint set_nth {B} (i : nat) (x : B) (p : list B) : list B :=
    match p, i with
    | [], _ => []
    | _ :: t, O => x :: t
    | y :: t, S i' => y :: set_nth i' x t
    end.

  (* one call of a history: (slot, operation) *)
  Definition step (full : bool) (pool : list (list A)) (c : nat * op) : list (list A) * out :=
    match nth_error pool (fst c) with
    | None => (pool, ONoIter)
    | Some l =>
      if is_clone (snd c) then (pool ++ [l], OCloned)
      else (set_nth (fst c) (fst (step1 full l (snd c))) pool, snd (step1 full l (snd c)))
    end.

  Fixpoint run (full : bool) (pool : list (list A)) (hist : list (nat * op)) : list out :=
    match hist with
    | [] => []
    | c :: h => snd (step full pool c) :: run full (fst (step full pool c)) h
    end.

  (* what an observed output has to be, given the deque's output.  Equality, except for the
     size hint of an iterator that is not exact-size: there any valid bound is allowed. *)
  Definition out_ok (full : bool) (spec impl : out) : Prop :=
    if full then spec = impl
    else match spec, impl with
         | OHint n _, OHint lo hi => lo <= n /\ match hi with Some h => n <= h | None => True end
         | _, _ => spec = impl
         end.

  (* executable form for the oracle *)
  Definition out_okb (eqb : A -> A -> bool) (full : bool) (spec impl : out) : bool :=
    match spec, impl with
    | ONone, ONone => true
    | OItem a, OItem b => eqb a b
    | ONum a, ONum b => a =? b
    | OHint n shi, OHint lo hi =>
      if full then (lo =? n) && match hi, shi with Some h, Some h' => h =? h' | None, None => true | _, _ => false end
      else (lo <=? n) && match hi with Some h => n <=? h | None => true end
    | OCloned, OCloned => true
    | ONoIter, ONoIter => true
    | OUnsupported, OUnsupported => true
    | _, _ => false
    end.
  Fixpoint outs_okb (eqb : A -> A -> bool) (full : bool) (spec impl : list out) : bool :=
    match spec, impl with
    | [], [] => true
    | s :: ss, i :: ii => out_okb eqb full s i && outs_okb eqb full ss ii
    | _, _ => false
    end.

End Deque.
Arguments out : clear implicits.
