(* Spec for C13: an abstract version resource, an encoder producing the documented
   VS_VERSIONINFO layout, the event list a complete and unaltered report consists of, and the
   meaning of each query as a function of the event list.

   Layout of one block (docs.microsoft.com/windows/win32/menurc/vs-versioninfo and siblings):
     WORD wLength        bytes of the block including children, without padding after it
     WORD wValueLength   bytes of Value for binary blocks (VS_VERSIONINFO, Var; an odd count is possible:
                         the last byte is the low half of one more word), words for text blocks (String),
                         zero where there is no Value (StringFileInfo, StringTable, VarFileInfo)
     WORD wType          0 binary, 1 text
     WCHAR szKey[]       NUL terminated
     WORD Padding1[]     to a 32-bit boundary
     Value
     WORD Padding2[]     to a 32-bit boundary
     Children
   Blocks start on 32-bit boundaries.  Writers differ on whether padding that nothing follows
   is emitted (and counted in wLength); [tight = true] omits it. *)
From PV.Model Require Import Machine VersionInfo.

Record vstring := { vs_key : list N; vs_value : list N }.      (* the stored value words, terminator included *)
Record vtable := { vt_key : list N; vt_strings : list vstring }.
(* a variable: a binary value of whole words; [vv_odd = Some b]: the stored byte count is odd - one more byte, the
   low byte of the word [b] that follows the value words (counted in wValueLength, padded like a value of that
   many bytes).  A value is reported as a slice of words, so the report holds the floor(bytes/2) whole words. *)
Record vvar := { vv_key : list N; vv_value : list N; vv_odd : option N }.
Inductive vblock :=
| BStrings (tables : list vtable)
| BVars (vars : list vvar)
| BOther (key : list N) (children : list N).
Record vinfo := { vi_key : list N; vi_fixed : list N; vi_blocks : list vblock }.

Definition isnil {A} (l : list A) : bool := match l with [] => true | _ => false end.
Definition padw (n : N) : list N := if N.even n then [] else [0].

Definition enc_tlv (tight : bool) (wtype vlen : N) (key value children : list N) : list N :=
  let head := key ++ [0] in
  let p1 := if tight && isnil value && isnil children then [] else padw (3 + lenN head) in
  let p2 := if tight && isnil children then [] else padw (lenN value) in
  let body := head ++ p1 ++ value ++ p2 ++ children in
  [2 * (3 + lenN body); vlen; wtype] ++ body.

(* siblings: each block starts on a 32-bit boundary *)
Fixpoint enc_seq (tight : bool) (l : list (list N)) : list N :=
  match l with
  | [] => []
  | [x] => x ++ (if tight then [] else padw (lenN x))
  | x :: r => x ++ padw (lenN x) ++ enc_seq tight r
  end.

Definition enc_string (tight : bool) (s : vstring) : list N :=
  enc_tlv tight 1 (lenN (vs_value s)) (vs_key s) (vs_value s) [].
Definition enc_table (tight : bool) (t : vtable) : list N :=
  enc_tlv tight 1 0 (vt_key t) [] (enc_seq tight (map (enc_string tight) (vt_strings t))).
Definition enc_var (tight : bool) (v : vvar) : list N :=
  match vv_odd v with
  | None => enc_tlv tight 0 (2 * lenN (vv_value v)) (vv_key v) (vv_value v) []
  | Some b => enc_tlv tight 0 (2 * lenN (vv_value v) + 1) (vv_key v) (vv_value v ++ [b]) []
  end.
Definition enc_block (tight : bool) (b : vblock) : list N :=
  match b with
  | BStrings ts => enc_tlv tight 1 0 StringFileInfo [] (enc_seq tight (map (enc_table tight) ts))
  | BVars vs => enc_tlv tight 1 0 VarFileInfo [] (enc_seq tight (map (enc_var tight) vs))
  | BOther k c => enc_tlv tight 1 0 k [] c
  end.
Definition encode (tight : bool) (v : vinfo) : list N :=
  enc_tlv tight 0 (2 * lenN (vi_fixed v)) (vi_key v) (vi_fixed v) (enc_seq tight (map (enc_block tight) (vi_blocks v))).

(* the same encoders over already encoded children (to state what happens when one child is not a block) *)
Definition enc_table_strings (tight : bool) (key : list N) (strings : list (list N)) : list N :=
  enc_tlv tight 1 0 key [] (enc_seq tight strings).
Definition enc_strings_block (tight : bool) (tables : list (list N)) : list N :=
  enc_tlv tight 1 0 StringFileInfo [] (enc_seq tight tables).
Definition encode_blocks (tight : bool) (key fixed : list N) (blocks : list (list N)) : list N :=
  enc_tlv tight 0 (2 * lenN fixed) key fixed (enc_seq tight blocks).

(* ---- the complete report ---- *)
Definition strip_last_nul (v : list N) : list N :=
  match rev v with 0 :: r => rev r | _ => v end.
Definition string_event (s : vstring) : event := EvString (vs_key s) (strip_last_nul (vs_value s)).
Definition table_events (t : vtable) : list event :=
  [EvTable (vt_key t); EvEnter 2] ++ map string_event (vt_strings t) ++ [EvExit 2].
Definition block_key (b : vblock) : list N :=
  match b with BStrings _ => StringFileInfo | BVars _ => VarFileInfo | BOther k _ => k end.
Definition block_events (b : vblock) : list event :=
  [EvFile (block_key b); EvEnter 1] ++
  match b with
  | BStrings ts => flat_map table_events ts
  | BVars vs => map (fun v => EvVar (vv_key v) (vv_value v)) vs
  | BOther _ _ => []
  end ++ [EvExit 1].
Definition fixed_opt (f : list N) : option (list N) := if lenN f =? 26 then Some f else None.
Definition events_of (v : vinfo) : list event :=
  [EvVersion (vi_key v) (fixed_opt (vi_fixed v)); EvEnter 0] ++ flat_map block_events (vi_blocks v) ++ [EvExit 0].

(* ---- what each query means, as a function of the reported events ---- *)
Fixpoint fixed_of (evs : list event) : option (list N) :=
  match evs with
  | [] => None
  | EvVersion _ f :: _ => f
  | _ :: r => fixed_of r
  end.
(* the value of the last Translation variable *)
Fixpoint translation_of (acc : list (N * N)) (evs : list event) : list (N * N) :=
  match evs with
  | [] => acc
  | EvVar k v :: r => translation_of (if list_eqb k Translation then lang_from_slice v else acc) r
  | _ :: r => translation_of acc r
  end.
(* the (key, value) pairs reported inside tables of language [lang], in order *)
Fixpoint strings_in (lang : N * N) (cur : bool) (evs : list event) : list (list N * list N) :=
  match evs with
  | [] => []
  | EvTable l :: r => strings_in lang (lang_matches lang l) r
  | EvString k v :: r => if cur then (k, v) :: strings_in lang cur r else strings_in lang cur r
  | _ :: r => strings_in lang cur r
  end.
Definition spec_strings (lang : N * N) (evs : list event) : list (list N * list N) :=
  map (fun p => (lossy (fst p), lossy (snd p))) (strings_in lang false evs).
(* the last value stored under [key] (a well-formed string) *)
Fixpoint last_value (eq : list N -> list N -> bool) (key : list N) (acc : option (list N)) (l : list (list N * list N)) : option (list N) :=
  match l with
  | [] => acc
  | (k, v) :: r => last_value eq key (if eq key k then Some v else acc) r
  end.
Definition spec_value (lang : N * N) (key : list N) (evs : list event) : option (list N) :=
  option_map lossy (last_value str_eq_utf16 key None (strings_in lang false evs)).
(* the languages of the reported tables (those whose key is an 8-character language id) *)
Fixpoint table_langs (evs : list event) : list (N * N) :=
  match evs with
  | [] => []
  | EvTable l :: r => match lang_parse l with Some x => x :: table_langs r | None => table_langs r end
  | _ :: r => table_langs r
  end.

(* agreement of a hash-map dump [m] (any order) with the report: exactly the languages of the
   reported tables, and under each (language, key) the last reported value *)
Definition dump_lookup (m : list ((N * N) * list (list N * list N))) (lang : N * N) (key : list N) : option (list N) :=
  match hm_get lang_eqb lang m with Some e => hm_get list_eqb key e | None => None end.
Definition keys_covered (lang : N * N) (evs : list event) (e : list (list N * list N)) : bool :=
  forallb (fun p => match last_value list_eqb (fst p) None (spec_strings lang evs) with
                    | Some v => list_eqb v (snd p) | None => false end) e
  && forallb (fun p => match hm_get list_eqb (fst p) e with Some _ => true | None => false end) (spec_strings lang evs).
Definition dump_agrees (evs : list event) (m : list ((N * N) * list (list N * list N))) : bool :=
  forallb (fun le => existsb (lang_eqb (fst le)) (table_langs evs) && keys_covered (fst le) evs (snd le)) m
  && forallb (fun l => match hm_get lang_eqb l m with Some _ => true | None => false end) (table_langs evs).

(* ---- well-formedness of an abstract resource: what the encoder can represent ---- *)
Definition key_ok (k : list N) : bool := forallb (fun w => negb (w =? 0)) k.
Definition small (ws : list N) : bool := 2 * lenN ws <? 65536.

Definition string_ok (tight : bool) (s : vstring) : bool := key_ok (vs_key s) && small (enc_string tight s).
Definition table_ok (tight : bool) (t : vtable) : bool :=
  key_ok (vt_key t) && small (enc_table tight t) && forallb (string_ok tight) (vt_strings t).
Definition var_ok (tight : bool) (v : vvar) : bool := key_ok (vv_key v) && small (enc_var tight v).
Definition block_ok (tight : bool) (b : vblock) : bool :=
  small (enc_block tight b) &&
  match b with
  | BStrings ts => forallb (table_ok tight) ts
  | BVars vs => forallb (var_ok tight) vs
  | BOther k _ => key_ok k && negb (list_eqb k StringFileInfo) && negb (list_eqb k VarFileInfo)
  end.
Definition vinfo_ok (tight : bool) (v : vinfo) : bool :=
  key_ok (vi_key v) && small (encode tight v) && forallb (block_ok tight) (vi_blocks v).

(* ---- source_code is a line-by-line rendering of the report ---- *)
Definition line_of (e : event) : list N :=
  match e with
  | EvVersion _ (Some f) => src_fixed f
  | EvVersion _ None => []
  | EvFile k => [32;32;66;76;79;67;75;32] ++ fmt_utf16_debug k ++ NL
  | EvTable l => [32;32;32;32;66;76;79;67;75;32] ++ fmt_utf16_debug l ++ NL
  | EvString k v => [32;32;32;32;32;32;86;65;76;85;69;32] ++ fmt_utf16_debug k ++ [44; 32] ++ fmt_utf16_debug v ++ NL
  | EvVar k v => if list_eqb k Translation
                 then [32;32;32;32;86;65;76;85;69;32] ++ fmt_utf16_debug k ++ print_langs (lang_from_slice v) ++ NL
                 else []
  | EvEnter d => spaces (d * 2) ++ [123] ++ NL
  | EvExit d => spaces (d * 2) ++ [125] ++ NL
  end.
Definition source_of (evs : list event) : list N := flat_map line_of evs.

(* ---- shape of any report: scopes are balanced and every callback happens at its level ---- *)
Fixpoint nested (depth : N) (evs : list event) : bool :=
  match evs with
  | [] => depth =? 0
  | EvVersion _ _ :: r => (depth =? 0) && nested depth r
  | EvEnter d :: r => (d =? depth) && nested (depth + 1) r
  | EvExit d :: r => (d + 1 =? depth) && nested d r
  | EvFile _ :: r => (depth =? 1) && nested depth r
  | EvTable _ :: r => (depth =? 2) && nested depth r
  | EvVar _ _ :: r => (depth =? 2) && nested depth r
  | EvString _ _ :: r => (depth =? 3) && nested depth r
  end.
Definition well_nested (evs : list event) : bool := nested 0 evs.
