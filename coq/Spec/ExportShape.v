(* C08, shape of the decoded export tables: which bytes of the view are decoded how.
   Stated over the bytes of the view at the fixed offsets of the Export Directory Table of the
   PE/COFF specification; the model decoder (Model/Exports.v try_from / functions / names /
   name_indices / by_) does not appear.  Where the bytes lie is given by [slice v] (C04 / C05). *)
From PV.Model Require Import Machine Mapping Views Exports.

(* dword_at / word_at : the little-endian dword / word of the buffer at offset o (Spec/LeBytes.v) *)
From PV.Spec Require Export LeBytes.

(* Export Directory Table (PE/COFF specification) *)
Definition EXPDIR_SIZE : N := 40.
Definition EXPDIR_ORDINAL_BASE : N := 16.
Definition EXPDIR_ADDRESS_TABLE_ENTRIES : N := 20.    (* NumberOfFunctions *)
Definition EXPDIR_NUMBER_OF_NAME_POINTERS : N := 24.  (* NumberOfNames *)
Definition EXPDIR_EXPORT_ADDRESS_TABLE_RVA : N := 28. (* AddressOfFunctions *)
Definition EXPDIR_NAME_POINTER_RVA : N := 32.         (* AddressOfNames *)
Definition EXPDIR_ORDINAL_TABLE_RVA : N := 36.        (* AddressOfNameOrdinals *)

(* n consecutive dwords / words from buffer offset off *)
Definition dwords_at (g : N -> N) (off n : N) : list N := map (fun k => dword_at g (off + 4 * N.of_nat k)) (seq 0 (N.to_nat n)).
Definition words_at (g : N -> N) (off n : N) : list N := map (fun k => word_at g (off + 2 * N.of_nat k)) (seq 0 (N.to_nat n)).

(* one table of n items of w bytes at rva a: EMPTY when a = 0; otherwise the w*n bytes, w-aligned, that slicing
   yields at a, decoded item by item; a slicing error is the error of the table *)
Definition table_shape (v : view) (a n w : N) (dec : N -> N -> list N) : res (list N) :=
  if a =? 0 then Ok []
  else match slice v a (w * n) w with
       | Ok r => Ok (dec (r_off r) n)
       | Err e => Err e
       | Fault f => Fault f
       end.

(* pe.exports()?.by()? in closed form: the 40-byte directory at the data directory's VirtualAddress (4-aligned),
   then the three tables in the order functions, names, name ordinals - the first failure is the result *)
Definition tables_shape (v : view) (dd : option (N * N)) : res tables :=
  match dd with
  | None => Err EBounds
  | Some (va, sz) =>
    match slice v va EXPDIR_SIZE 4 with
    | Err e => Err e
    | Fault f => Fault f
    | Ok d =>
      let g := v_get v in
      let x := r_off d in
      let nf := dword_at g (x + EXPDIR_ADDRESS_TABLE_ENTRIES) in
      let nn := dword_at g (x + EXPDIR_NUMBER_OF_NAME_POINTERS) in
      match table_shape v (dword_at g (x + EXPDIR_EXPORT_ADDRESS_TABLE_RVA)) nf 4 (dwords_at g) with
      | Err e => Err e
      | Fault f => Fault f
      | Ok fs =>
        match table_shape v (dword_at g (x + EXPDIR_NAME_POINTER_RVA)) nn 4 (dwords_at g) with
        | Err e => Err e
        | Fault f => Fault f
        | Ok ns =>
          match table_shape v (dword_at g (x + EXPDIR_ORDINAL_TABLE_RVA)) nn 2 (words_at g) with
          | Err e => Err e
          | Fault f => Fault f
          | Ok ix => Ok {| t_funcs := fs; t_names := ns; t_idxs := ix; t_base := dword_at g (x + EXPDIR_ORDINAL_BASE);
                           t_dva := va; t_dsize := sz |}
          end
        end
      end
    end
  end.

(* pointwise reading of one table: l is empty when a = 0, otherwise it has n entries and entry i is the
   w-byte little-endian value at offset w*i of the region that slicing yields at a *)
Definition is_table (v : view) (a n w : N) (item : (N -> N) -> N -> N) (l : list N) : Prop :=
  if a =? 0 then l = []
  else exists r, slice v a (w * n) w = Ok r /\ lenN l = n /\
       forall i, i < n -> nth_error l (N.to_nat i) = Some (item (v_get v) (r_off r + w * i)).
