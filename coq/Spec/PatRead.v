(* Spec/PatRead.v - an independent READER of the documented concrete syntax of patterns (doc comment of
   `pattern::parse`, src/proc-macros/pattern.rs:204-298): [read_pat] turns the bytes of a pattern string into the AST of
   Spec/PatSyntax.v, or answers None when the string is not in the documented grammar.  It shares nothing with the model
   of the parser (Model/Pattern.v): a lexer that cuts the string into tokens, and a recursive-descent recogniser of

     pattern ::= seq                                   (the whole string)
     seq     ::= item*
     item    ::= HH                                    two hex digits of either case
               | "chars"                               any bytes but the double quote
               | ?+                                    a run of adjacent question marks
               | [n] | [a-b]                           decimal numbers (leading zeros allowed)
               | ' | i1 | i2 | i4 | u1 | u2 | u4 | z | @k          k = 0-9, A-Z or a-z
               | J | J { seq }                         J = % $ *
               | ( seq | seq | ... )                   one alternative or more
   with whitespace (space, tab, CR, LF - the documentation names the space only) allowed between any two tokens and
   nowhere inside a token.

   READING DECISIONS (the documentation is silent on them; each one is the weakest reading that keeps a string the
   documentation gives a meaning to):
   R1  "Curly braces must follow a jump symbol": between the jump symbol and its '{' there may be whitespace and
       items that denote nothing - the empty string "" and [0] ("[n] is equivalent to writing n consecutive question
       marks": none).  They are dropped.  Anything else between the two, a '{' behind ')' , '}' or '{' included, is
       not in the grammar.
   R2  a run of question marks is ONE item IWild n (n >= 1); two runs separated by whitespace are two items (they
       compile to the same atoms).
   R3  the limits (numbers < 16384, a < b, fewer than 255 captures, offsets of a group < 256) are not syntax: they are
       [wf] of Spec/PatSyntax.v, decided by [wfb] below.

   The oracle of the correspondence check and the converse theorems (Proofs/PatReadProofs.v, PatConverse.v):
   every string the parser accepts satisfies  read_pat s = Some a /\ wf a /\ atoms = compile a. *)
From PV.Spec Require Export PatSyntax.

(* ---------------------------------------------------------------- characters *)
Definition is_ws (c : N) : bool := (c =? 32) || (c =? 9) || (c =? 10) || (c =? 13).
Definition dig (c : N) : option N := if (48 <=? c) && (c <=? 57) then Some (c - 48) else None.
Definition hexdig (c : N) : option N :=
  if (48 <=? c) && (c <=? 57) then Some (c - 48)             (* 0-9 *)
  else if (65 <=? c) && (c <=? 70) then Some (c - 55)        (* A-F *)
  else if (97 <=? c) && (c <=? 102) then Some (c - 87)       (* a-f *)
  else None.
Definition aligndig (c : N) : option N :=
  if (48 <=? c) && (c <=? 57) then Some (c - 48)             (* 0-9 *)
  else if (65 <=? c) && (c <=? 90) then Some (c - 55)        (* A-Z = 10..35 *)
  else if (97 <=? c) && (c <=? 122) then Some (c - 87)       (* a-z = 10..35 *)
  else None.
Definition read_kind (signed : bool) (c : N) : option rkind :=
  if c =? 49 then Some (if signed then RI8 else RU8)
  else if c =? 50 then Some (if signed then RI16 else RU16)
  else if c =? 52 then Some (if signed then RI32 else RU32)
  else None.

(* ---------------------------------------------------------------- tokens *)
(* [TItem] carries the items that are one token: everything but ISub and IAlt *)
Inductive tok := TItem (it : item) | TLBrace | TRBrace | TLParen | TPipe | TRParen.

Fixpoint skip_ws (s : list N) : list N :=
  match s with c :: t => if is_ws c then skip_ws t else s | [] => [] end.
(* a maximal run of decimal digits: its value and what follows *)
Fixpoint dec_run (s : list N) (acc : N) : N * list N :=
  match s with
  | c :: t => match dig c with Some d => dec_run t (acc * 10 + d) | None => (acc, s) end
  | [] => (acc, [])
  end.
Definition read_dec (s : list N) : option (N * list N) :=          (* one digit at least *)
  match s with
  | c :: _ => match dig c with Some _ => Some (dec_run s 0) | None => None end
  | [] => None
  end.
(* the bytes up to the closing double quote *)
Fixpoint read_str (s : list N) : option (list N * list N) :=
  match s with
  | [] => None
  | c :: t => if c =? 34 then Some ([], t)
              else match read_str t with Some (b, r) => Some (c :: b, r) | None => None end
  end.
(* the question marks at the head of the input *)
Fixpoint qrun (s : list N) : nat * list N :=
  match s with
  | c :: t => if c =? 63 then (let (n, r) := qrun t in (S n, r)) else (O, s)
  | [] => (O, [])
  end.

(* one token at the head of the input (which does not start with whitespace) *)
Definition lex1 (s : list N) : option (tok * list N) :=
  match s with
  | [] => None
  | c :: t =>
    if c =? 39 then Some (TItem ISave, t)                                        (* ' *)
    else if c =? 122 then Some (TItem IZero, t)                                  (* z *)
    else if c =? 37 then Some (TItem (IJump J1), t)                              (* % *)
    else if c =? 36 then Some (TItem (IJump J4), t)                              (* $ *)
    else if c =? 42 then Some (TItem (IJump JP), t)                              (* * *)
    else if c =? 123 then Some (TLBrace, t)
    else if c =? 125 then Some (TRBrace, t)
    else if c =? 40 then Some (TLParen, t)
    else if c =? 124 then Some (TPipe, t)
    else if c =? 41 then Some (TRParen, t)
    else if c =? 63 then (let (n, r) := qrun t in Some (TItem (IWild (S n)), r)) (* ?+ *)
    else if c =? 34 then                                                         (* "..." *)
      match read_str t with Some (b, r) => Some (TItem (IStr b), r) | None => None end
    else if c =? 91 then                                                         (* [n] [a-b] *)
      match read_dec t with
      | Some (a, c1 :: r) =>
        if c1 =? 93 then Some (TItem (ISkip a), r)
        else if c1 =? 45 then
          match read_dec r with
          | Some (b, c2 :: r') => if c2 =? 93 then Some (TItem (IRange a b), r') else None
          | _ => None
          end
        else None
      | _ => None
      end
    else if c =? 64 then                                                         (* @k *)
      match t with
      | k :: r => match aligndig k with Some v => Some (TItem (IAlign v), r) | None => None end
      | [] => None
      end
    else if (c =? 105) || (c =? 117) then                                        (* i / u *)
      match t with
      | k :: r => match read_kind (c =? 105) k with Some rk => Some (TItem (IRead rk), r) | None => None end
      | [] => None
      end
    else
      match hexdig c with                                                        (* HH *)
      | Some h =>
        match t with
        | c2 :: r => match hexdig c2 with Some l => Some (TItem (IByte (16 * h + l)), r) | None => None end
        | [] => None
        end
      | None => None
      end
  end.

Fixpoint lex (fuel : nat) (s : list N) : option (list tok) :=
  match fuel with
  | O => None
  | S f =>
    match skip_ws s with
    | [] => Some []
    | c :: t =>
      match lex1 (c :: t) with
      | Some (tk, r) => match lex f r with Some ts => Some (tk :: ts) | None => None end
      | None => None
      end
    end
  end.

(* ---------------------------------------------------------------- the grammar over tokens *)
(* R1: items that denote nothing *)
Definition null_tok (t : tok) : bool :=
  match t with
  | TItem (IStr []) => true
  | TItem (ISkip n) => n =? 0
  | _ => false
  end.
(* what follows a jump symbol: Some rest = an opening brace (behind items that denote nothing), rest follows it *)
Fixpoint brace_after (ts : list tok) : option (list tok) :=
  match ts with
  | TLBrace :: r => Some r
  | t :: r => if null_tok t then brace_after r else None
  | [] => None
  end.

(* [rd_seq] reads items up to a closer ( } | ) ) or the end and returns them with the rest, closer included;
   [rd_alts] reads the alternatives of a group behind its '(' up to and including the ')'.  Every call consumes a
   unit of fuel; 2 * (number of tokens) + 2 suffices. *)
Fixpoint rd_seq (fuel : nat) (ts : list tok) {struct fuel} : option (list item * list tok) :=
  match fuel with
  | O => None
  | S f =>
    match ts with
    | [] => Some ([], [])
    | TRBrace :: _ | TPipe :: _ | TRParen :: _ => Some ([], ts)
    | TLBrace :: _ => None                                   (* a brace that does not follow a jump symbol *)
    | TLParen :: rest =>
      match rd_alts f rest with
      | Some (a :: more, rest1) =>
        match rd_seq f rest1 with Some (l, r) => Some (IAlt a more :: l, r) | None => None end
      | _ => None
      end
    | TItem (IJump j) :: rest =>
      match brace_after rest with
      | Some rest1 =>
        match rd_seq f rest1 with
        | Some (sub, TRBrace :: rest2) =>
          match rd_seq f rest2 with Some (l, r) => Some (ISub j sub :: l, r) | None => None end
        | _ => None
        end
      | None => match rd_seq f rest with Some (l, r) => Some (IJump j :: l, r) | None => None end
      end
    | TItem it :: rest => match rd_seq f rest with Some (l, r) => Some (it :: l, r) | None => None end
    end
  end
with rd_alts (fuel : nat) (ts : list tok) {struct fuel} : option (list (list item) * list tok) :=
  match fuel with
  | O => None
  | S f =>
    match rd_seq f ts with
    | Some (a, TPipe :: rest) =>
      match rd_alts f rest with Some (more, r) => Some (a :: more, r) | None => None end
    | Some (a, TRParen :: rest) => Some ([a], rest)
    | _ => None
    end
  end.

Definition read_toks (ts : list tok) : option (list item) :=
  match rd_seq (2 * length ts + 2) ts with
  | Some (a, []) => Some a                                   (* a closer at top level closes nothing *)
  | _ => None
  end.

Definition read_pat (s : list N) : option (list item) :=
  match lex (S (length s)) s with
  | Some ts => read_toks ts
  | None => None
  end.

(* ---------------------------------------------------------------- [wf] of Spec/PatSyntax.v, decided (R3) *)
Fixpoint alt_okb (ls : list (list atom)) : bool :=
  match ls with
  | [] => true
  | l :: t => match t with
              | [] => true
              | _ :: _ => Nat.ltb (length l + 1) 256 && Nat.ltb (length (alt_code t)) 256 && alt_okb t
              end
  end.
Fixpoint wfb_item (it : item) (c : cst) {struct it} : bool :=
  match it with
  | IByte b => b <? 256
  | IStr s => forallb (fun ch => (ch <? 256) && negb (ch =? 34)) s
  | IWild _ => true
  | ISkip n => n <? 16384
  | IRange a b => (a <? b) && (b <? 16384)
  | ISave | IRead _ | IZero => c_save c <? 255
  | IAlign k => k <? 36
  | IJump _ => true
  | ISub j sub =>
    (fix go (l : list item) (c : cst) : bool :=
       match l with [] => true | x :: t => wfb_item x c && go t (comp_item x c) end) sub (emit c [Push (jpush j); jatom j])
  | IAlt a more =>
    let go := (fix go (l : list item) (c : cst) : bool :=
       match l with [] => true | x :: t => wfb_item x c && go t (comp_item x c) end) in
    let fresh := {| c_res := []; c_save := c_save c; c_closed := false |} in
    go a fresh &&
    (fix gos (ls : list (list item)) : bool := match ls with [] => true | alt :: t => go alt fresh && gos t end) more &&
    alt_okb (map c_res (comp_seq a fresh :: map (fun alt => comp_seq alt fresh) more))
  end.
Fixpoint wfb_seq (l : list item) (c : cst) : bool :=
  match l with [] => true | x :: t => wfb_item x c && wfb_seq t (comp_item x c) end.
Definition wfb (l : list item) : bool := wfb_seq l cinit.

(* the oracle of the correspondence check: the string is in the grammar, its AST is well-formed and compiles to [atoms] *)
Definition atom_eqb (x y : atom) : bool :=
  match x, y with
  | Byte a, Byte b | Save a, Save b | Push a, Push b | Fuzzy a, Fuzzy b | Skip a, Skip b | Back a, Back b
  | Rangext a, Rangext b | Many a, Many b | Pir a, Pir b | Check a, Check b | Aligned a, Aligned b
  | ReadI8 a, ReadI8 b | ReadU8 a, ReadU8 b | ReadI16 a, ReadI16 b | ReadU16 a, ReadU16 b
  | ReadI32 a, ReadI32 b | ReadU32 a, ReadU32 b | Zero a, Zero b | Case a, Case b | Break a, Break b => a =? b
  | Pop, Pop | Jump1, Jump1 | Jump4, Jump4 | Ptr, Ptr | VTypeName, VTypeName | Nop, Nop => true
  | _, _ => false
  end.
Fixpoint atoms_eqb (l m : list atom) : bool :=
  match l, m with
  | [], [] => true
  | x :: l', y :: m' => atom_eqb x y && atoms_eqb l' m'
  | _, _ => false
  end.
Definition accepted_ok (s : list N) (atoms : list atom) : bool :=
  match read_pat s with
  | Some a => wfb a && atoms_eqb (compile a) atoms
  | None => false
  end.
(* ... and conversely: a string of the grammar whose AST is well-formed must be accepted *)
Definition documented (s : list N) : bool :=
  match read_pat s with Some a => wfb a | None => false end.

(* R2: an empty run of question marks prints as nothing, so the reader cannot see it (it compiles to nothing) *)
Fixpoint no_empty_wild_item (it : item) : bool :=
  match it with
  | IWild n => negb (Nat.eqb n 0)
  | ISub _ sub => forallb no_empty_wild_item sub
  | IAlt a more => forallb no_empty_wild_item a && forallb (forallb no_empty_wild_item) more
  | _ => true
  end.
Definition no_empty_wild (l : list item) : bool := forallb no_empty_wild_item l.

(* ---------------------------------------------------------------- examples *)
(* the documentation examples and the unit tests of pattern.rs, in the spelling they are written in *)
Example rd_doc1 : read_pat [53;53;32;56;57;32;101;53;32;56;51;32;63;32;101;99]                      (* 55 89 e5 83 ? ec *)
  = Some [IByte 0x55; IByte 0x89; IByte 0xe5; IByte 0x83; IWild 1; IByte 0xec].
Proof. vm_compute. reflexivity. Qed.
Example rd_doc2 : read_pat [98;56;32;91;49;54;93;32;53;48;32;91;49;51;45;52;50;93;32;102;102]       (* b8 [16] 50 [13-42] ff *)
  = Some [IByte 0xb8; ISkip 16; IByte 0x50; IRange 13 42; IByte 0xff].
Proof. vm_compute. reflexivity. Qed.
Example rd_doc3 : read_pat [101;56;32;36;32;123;32;39;32;125;32;56;51;32;102;48;32;53;99;32;99;51]  (* e8 $ { ' } 83 f0 5c c3 *)
  = Some [IByte 0xe8; ISub J4 [ISave]; IByte 0x83; IByte 0xf0; IByte 0x5c; IByte 0xc3].
Proof. vm_compute. reflexivity. Qed.
Example rd_doc4 : read_pat [56;51;32;99;48;32;50;97;32;40;32;54;97;32;63;32;124;32;54;56;32;63;32;63;32;63;32;63;32;41;32;101;56]
  = Some [IByte 0x83; IByte 0xc0; IByte 0x2a; IAlt [IByte 0x6a; IWild 1] [[IByte 0x68; IWild 1; IWild 1; IWild 1; IWild 1]]; IByte 0xe8].
Proof. vm_compute. reflexivity. Qed.
Example rd_test2 : read_pat [66;57;39;63;63;32;54;56;63;63;63;63;32;69;56;36;123;39;125;32;56;66]  (* B9'?? 68???? E8${'} 8B *)
  = Some [IByte 0xb9; ISave; IWild 2; IByte 0x68; IWild 4; IByte 0xe8; ISub J4 [ISave]; IByte 0x8b].
Proof. vm_compute. reflexivity. Qed.
Example rd_test3 : read_pat [36;123;37;123;36;123;37;123;125;125;125;125]                          (* ${%{${%{}}}} *)
  = Some [ISub J4 [ISub J1 [ISub J4 [ISub J1 []]]]].
Proof. vm_compute. reflexivity. Qed.
Example rd_misc : read_pat [42;34;34;9;91;48;48;93;10;123;34;104;105;34;48;48;125;40;41;40;124;41;64;122;105;49;117;52;122;39]
  = Some [ISub JP [IStr [104;105]; IByte 0]; IAlt [] []; IAlt [] [[]]; IAlign 35; IRead RI8; IRead RU32; IZero; ISave].   (* *""<tab>[00]<lf>{"hi"00}()(|)@zi1u4z' *)
Proof. vm_compute. reflexivity. Qed.
(* not in the grammar: a brace behind a group, behind a closing brace, behind an opening brace, behind a byte; a group or
   a brace that is not closed where it was opened; a closer at top level; whitespace inside a token *)
Example rd_reject :
  map read_pat [ [40;48;49;124;37;41;123;48;50;125;48;51];        (* (01|%){02}03 *)
                 [37;123;125;123;125];                            (* %{}{} *)
                 [37;123;123;48;49;125;125];                      (* %{{01}} *)
                 [48;49;123;125];                                 (* 01{} *)
                 [37;123;40;48;49;125;37;123;124;48;50;41;125];   (* %{(01}%{|02)} *)
                 [40;48;49]; [48;49;41]; [48;49;124;48;50]; [37;123]; [125];
                 [48;32;49]; [91;32;49;93]; [64;32;52]; [105;32;49]; [91;49;45;93]; [91;45;50;93]; [34;97] ]
  = repeat None 17.
Proof. vm_compute. reflexivity. Qed.
