(* Spec for C08: what the export tables denote.  No search algorithm appears here: a lookup
   is defined by the table entry it names (closed forms, "the least hint such that", "some
   hint such that"), and the boolean functions at the end are the reflections that are
   extracted and evaluated on the implementation's observations. *)
From PV.Model Require Import Machine Mapping Views Exports.
From PV.Spec Require Import MappingSpec ViewSpec.

(* entry k of a table (k is any machine integer; nothing is converted to nat unless in range) *)
Definition entry {A} (l : list A) (k : N) : option A :=
  if k <? lenN l then nth_error l (N.to_nat k) else None.
(* the hints 0 .. len-1 of a table *)
Definition hints_of {A} (l : list A) : list N := map N.of_nat (seq 0 (length l)).

(* byte strings are ordered lexicographically as unsigned bytes *)
Inductive lex_lt : list N -> list N -> Prop :=
| lex_lt_nil : forall y b, lex_lt [] (y :: b)
| lex_lt_head : forall x y a b, x < y -> lex_lt (x :: a) (y :: b)
| lex_lt_tail : forall x a b, lex_lt a b -> lex_lt (x :: a) (x :: b).
Definition lex_le (a b : list N) : Prop := a = b \/ lex_lt a b.

Definition bytes_eq_dec : forall a b : list N, {a = b} + {a <> b} := list_eq_dec N.eq_dec.

Section Spec.
  Variable cstr : N -> res (list N).
  Variable t : tables.

  (* the export directory's extent, in unbounded arithmetic *)
  Definition in_extent (rva : N) : bool := (t_dva t <=? rva) && (rva <? t_dva t + t_dsize t).
  (* what a function table entry denotes *)
  Definition classify (rva : N) : res export :=
    if rva =? 0 then Err ENull
    else if in_extent rva then
      match cstr rva with Ok s => Ok (Forward s) | Err e => Err e | Fault f => Fault f end
    else Ok (Symbol rva).

  Definition index_spec (i : N) : res export :=
    match entry (t_funcs t) i with None => Err EBounds | Some rva => classify rva end.
  Definition hint_spec (h : N) : res export :=
    match entry (t_idxs t) h with None => Err EBounds | Some i => index_spec i end.
  Definition ordinal_spec (o : N) : res export :=
    if o <? t_base t then Err EBounds else index_spec (o - t_base t).
  Definition name_of_hint_spec (h : N) : res (list N) :=
    match entry (t_names t) h with None => Err EBounds | Some rva => cstr rva end.

  (* hint h carries the name n *)
  Definition names_hint (h : N) (n : list N) : Prop := name_of_hint_spec h = Ok n.
  Definition names_hintb (h : N) (n : list N) : bool :=
    match name_of_hint_spec h with Ok s => if bytes_eq_dec s n then true else false | _ => false end.

  (* linear lookup: the least hint carrying the name *)
  Definition name_linear_spec (n : list N) : res export :=
    match find (fun h => names_hintb h n) (hints_of (t_names t)) with
    | Some h => hint_spec h
    | None => Err ENull
    end.

  (* the name table resolves to [ns] *)
  Definition resolves (ns : list (list N)) : Prop := map cstr (t_names t) = map Ok ns.
  (* sorted: every name readable and non-decreasing *)
  Fixpoint ascending (ns : list (list N)) : Prop :=
    match ns with
    | a :: (b :: _) as r => lex_le a b /\ ascending r
    | _ => True
    end.
  Definition sorted_names : Prop := exists ns, resolves ns /\ ascending ns.

  (* reverse lookup *)
  Definition name_lookup_spec (i : N) : res import :=
    match find (fun h => match entry (t_idxs t) h with Some ix => ix =? i | None => false end) (hints_of (t_idxs t)) with
    | Some h => match name_of_hint_spec h with Ok s => Ok (ByName h s) | Err e => Err e | Fault f => Fault f end
    | None => Ok (ByOrdinal ((i + t_base t) mod W16))
    end.

  (* iterators *)
  Definition iter_spec : list (res export) := map classify (t_funcs t).
  Definition iter_names_spec : list (res (list N) * res export) :=
    map (fun h => (name_of_hint_spec h, hint_spec h)) (hints_of (t_names t)).
  Definition iter_name_indices_spec : list (res (list N) * N) :=
    map (fun h => (name_of_hint_spec h, match entry (t_idxs t) h with Some ix => ix | None => 0 end))
        (filter (fun h => h <? lenN (t_idxs t)) (hints_of (t_names t))).

  (* check_sorted: the readable prefix of the name table decides.  A descending pair inside it
     gives false; otherwise the first unreadable name gives its error; otherwise true. *)
  Fixpoint readable_prefix (rvas : list N) : list (list N) * option (res (list N)) :=
    match rvas with
    | [] => ([], None)
    | rva :: rest =>
      match cstr rva with
      | Ok s => let (p, e) := readable_prefix rest in (s :: p, e)
      | r => ([], Some r)
      end
    end.
  Fixpoint ascendingb (prev : list N) (ns : list (list N)) : bool :=
    match ns with
    | [] => true
    | a :: r => match lex_cmp prev a with Gt => false | _ => ascendingb a r end
    end.
  Definition check_sorted_spec : res bool :=
    let (p, e) := readable_prefix (t_names t) in
    if negb (ascendingb [] p) then Ok false
    else match e with
         | None => Ok true
         | Some (Err x) => Err x
         | Some (Fault f) => Fault f
         | Some (Ok _) => Ok true
         end.
End Spec.

(* get-proc-address: image base + rva for real symbols only *)
Definition proc_address_spec (v : view) (r : res export) : res N :=
  match r with
  | Ok (Symbol rva) => rva_to_va_spec v rva
  | Ok (Forward _) => Err ENull
  | Err e => Err e
  | Fault f => Fault f
  end.

(* the tables a view denotes, through the specification of slicing (C04 / C05) *)
Definition by_spec (v : view) (dd : option (N * N)) : res tables := exports_by (slice_spec v) (v_get v) dd.
Definition cstr_spec (v : view) (a : N) : res (list N) :=
  match c_str_spec (v_get v) (slice_spec v) a with
  | Ok r => Ok (bytes_of (v_get v) (r_off r) (r_len r - 1))
  | Err e => Err e
  | Fault f => Fault f
  end.

(* ---- boolean reflections for the oracle ---- *)
Definition export_eqb (a b : export) : bool :=
  match a, b with
  | Symbol x, Symbol y => x =? y
  | Forward x, Forward y => if bytes_eq_dec x y then true else false
  | _, _ => false
  end.
Definition res_eqb {A} (eqb : A -> A -> bool) (a b : res A) : bool :=
  match a, b with
  | Ok x, Ok y => eqb x y
  | Err x, Err y => error_eqb x y
  | _, _ => false
  end.
Definition rexp_eqb := res_eqb export_eqb.
Definition rname_eqb := res_eqb (fun a b : list N => if bytes_eq_dec a b then true else false).
Definition import_eqb (a b : import) : bool :=
  match a, b with
  | ByName h x, ByName k y => (h =? k) && (if bytes_eq_dec x y then true else false)
  | ByOrdinal x, ByOrdinal y => x =? y
  | _, _ => false
  end.
Definition rimp_eqb := res_eqb import_eqb.
Definition rN_eqb := res_eqb N.eqb.
Definition rbool_eqb := res_eqb Bool.eqb.
Fixpoint list_eqb {A} (eqb : A -> A -> bool) (a b : list A) : bool :=
  match a, b with
  | [], [] => true
  | x :: a', y :: b' => eqb x y && list_eqb eqb a' b'
  | _, _ => false
  end.
Definition tables_eqb (a b : tables) : bool :=
  list_eqb N.eqb (t_funcs a) (t_funcs b) && list_eqb N.eqb (t_names a) (t_names b) &&
  list_eqb N.eqb (t_idxs a) (t_idxs b) && (t_base a =? t_base b) && (t_dva a =? t_dva b) && (t_dsize a =? t_dsize b).

Section Oracle.
  Variable cstr : N -> res (list N).
  Variable t : tables.
  Definition sortedb : bool :=
    match check_sorted_spec cstr t with Ok true => true | _ => false end.
  (* a result of the binary search: on a sorted table it is the entry of some hint carrying the
     name, or Null when there is none; on any table it is never the entry of a hint with another name *)
  Definition name_ok (n : list N) (r : res export) : bool :=
    let hs := hints_of (t_names t) in
    let carriers := filter (fun h => names_hintb cstr t h n) hs in
    if sortedb then
      match carriers with
      | [] => rexp_eqb r (Err ENull)
      | _ => existsb (fun h => rexp_eqb r (hint_spec cstr t h)) carriers
      end
    else
      rexp_eqb r (Err ENull) || existsb (fun h => rexp_eqb r (hint_spec cstr t h)) carriers
      || existsb (fun h => match name_of_hint_spec cstr t h with Err e => rexp_eqb r (Err e) | _ => false end) hs.
  (* hint with name fallback *)
  Definition hint_name_ok (h : N) (n : list N) (r : res export) : bool :=
    match hint_spec cstr t h with
    | Ok e => if names_hintb cstr t h n then rexp_eqb r (Ok e) else name_ok n r
    | _ => name_ok n r
    end.
  Definition import_ok (i : import) (r : res export) : bool :=
    match i with ByName h n => hint_name_ok h n r | ByOrdinal o => rexp_eqb r (ordinal_spec cstr t o) end.
End Oracle.
