(* Spec for C12: the .ico file format (ICONDIR, ICONDIRENTRY[n], then the image data).
   An image is given by the first 12 bytes of its directory entry (bWidth, bHeight, bColorCount,
   bReserved, wPlanes, wBitCount, dwBytesInRes) and its data; an RT_GROUP_ICON entry is these 12 bytes
   followed by the resource id, which is why icon groups can be reassembled by copying.
   This is NOT the layout of cursors: a .cur entry holds the hotspot where an .ico entry holds planes and
   bit count, and RT_GROUP_CURSOR entries differ from both - see Spec/Cur.v.  The theorems use ty = 1. *)
From PV.Model Require Import Machine.

Record ico_image := { ii_head : list N; ii_data : list N }.

(* the directory entries: each head followed by the file offset of its data, data laid out back to back *)
Fixpoint ico_entries (imgs : list ico_image) (off : N) : list N :=
  match imgs with
  | [] => []
  | i :: r => ii_head i ++ le32 off ++ ico_entries r (off + lenN (ii_data i))
  end.
Definition ico_data (imgs : list ico_image) : list N := concat (map ii_data imgs).
(* [hdr] = the 6 bytes idReserved = 0, idType (1 for an icon file), idCount *)
Definition ico_header (ty : N) (n : N) : list N := le16 0 ++ le16 ty ++ le16 n.
Definition ico_encode (ty : N) (imgs : list ico_image) : list N :=
  ico_header ty (lenN imgs) ++ ico_entries imgs (6 + 16 * lenN imgs) ++ ico_data imgs.
