(* Spec for C15: what the property text says about the five directories, stated in closed
   form over the slicing rule of C04/C05 (slice_spec / read_spec) and without any search loop.

   Lookup by program counter is specified by a RELATION between a table, a pc and a search
   result that mentions neither a binary search nor the comparator closure; std's
   binary_search_by is characterised only by its documented contract (bsearch_contract). *)
From PV.Model Require Import Machine Mapping Views Dirs.
From PV.Spec Require Import MappingSpec ViewSpec.

(* ---------------------------------------------------------------- record tables *)

(* a directory that is an array of [rec]-byte records, 4-aligned: Size must be a multiple of rec,
   then the array is the Size bytes that slicing at VirtualAddress yields (Null when absent) *)
Definition table_spec (rec : N) (v : view) (dd : option (N * N)) : res region :=
  match dd with
  | None => Err EBounds
  | Some (va, size) =>
    if negb (size mod rec =? 0) then Err EInvalid
    else match slice_spec v va size 4 with
         | Ok r => Ok {| r_off := r_off r; r_len := size |}
         | Err e => Err e
         | Fault f => Fault f
         end
  end.
Definition exception_spec := table_spec 12.
Definition debug_spec := table_spec 28.

(* a single structure of [size] bytes with alignment [align] at VirtualAddress *)
Definition struct_spec (size align : N) (v : view) (dd : option (N * N)) : res region :=
  match dd with
  | None => Err EBounds
  | Some (va, _) =>
    match slice_spec v va size align with
    | Ok r => Ok {| r_off := r_off r; r_len := size |}
    | Err e => Err e
    | Fault f => Fault f
    end
  end.

(* ---------------------------------------------------------------- exception: lookup *)

Definition contains (f : rfun) (pc : N) : bool := (rf_begin f <=? pc) && (pc <? rf_end f).

(* the table is sorted: every record is a (possibly empty) interval and consecutive records do not overlap *)
Definition sorted_table (t : list rfun) : Prop :=
  forall i f g, nth_error t i = Some f -> nth_error t (S i) = Some g ->
    rf_begin f <= rf_end f /\ rf_end f <= rf_begin g /\ rf_begin g <= rf_end g.

(* index of the first record whose [begin, end) contains pc: a linear scan *)
Fixpoint find_fn (t : list rfun) (pc : N) (i : N) : option N :=
  match t with
  | [] => None
  | f :: r => if contains f pc then Some i else find_fn r pc (i + 1)
  end.

(* every record with index in [i, ..) and < k ends at or before pc; every one >= k starts after pc *)
Fixpoint split_at (t : list rfun) (pc : N) (i k : N) : bool :=
  match t with
  | [] => true
  | f :: r => (if i <? k then rf_end f <=? pc else pc <? rf_begin f) && split_at r pc (i + 1) k
  end.

(* what a lookup may answer: Found i only for a record that contains pc; Insert k only when no
   record contains pc, and k separates the records at or before pc from those after it *)
Definition index_rel (t : list rfun) (pc : N) (r : found) : bool :=
  match r with
  | Found i => match nth_error t (N.to_nat i) with Some f => contains f pc | None => false end
  | Insert k => (k <=? lenN t) && split_at t pc 0 k &&
                match find_fn t pc 0 with None => true | Some _ => false end
  end.

(* the observable requirement, also on unsorted tables: Found only for a containing record,
   Insert only with an index inside the table *)
Definition index_ok (t : list rfun) (pc : N) (r : found) : bool :=
  if check_sorted t then index_rel t pc r
  else match r with
       | Found i => match nth_error t (N.to_nat i) with Some f => contains f pc | None => false end
       | Insert k => k <=? lenN t
       end.

(* The documented contract of slice::binary_search_by(f), for a slice that is sorted with respect
   to f (all Less elements, then all Equal ones, then all Greater ones). *)
Definition ord_rank (o : ordering) : N := match o with Less => 0 | Equal => 1 | Greater => 2 end.
Definition cmp_sorted (c : rfun -> ordering) (t : list rfun) : Prop :=
  forall i j f g, (i < j)%nat -> nth_error t i = Some f -> nth_error t j = Some g ->
    ord_rank (c f) <= ord_rank (c g).
Definition bsearch_contract (c : rfun -> ordering) (t : list rfun) (r : found) : Prop :=
  match r with
  | Found i => exists f, nth_error t (N.to_nat i) = Some f /\ c f = Equal
  | Insert k => k <= lenN t /\
                forall i f, nth_error t i = Some f ->
                  (N.of_nat i < k -> c f = Less) /\ (k <= N.of_nat i -> c f = Greater)
  end.

(* bytes of a function: [Begin, End) through the slicing rule *)
Definition function_bytes_spec (v : view) (f : rfun) : res region :=
  if rf_end f <? rf_begin f then Err EOverflow
  else match slice_spec v (rf_begin f) (rf_end f - rf_begin f) 1 with
       | Ok r => Ok {| r_off := r_off r; r_len := rf_end f - rf_begin f |}
       | Err e => Err e
       | Fault x => Fault x
       end.

(* unwind info: 4 bytes of header and CountOfCodes 2-byte slots, all inside the slice *)
Definition unwind_info_spec (v : view) (f : rfun) : res region :=
  match slice_spec v (rf_unwind f) 4 1 with
  | Ok r =>
    let n := 4 + 2 * v_get v (r_off r + 2) in
    if r_len r <? n then Err EBounds else Ok {| r_off := r_off r; r_len := n |}
  | Err e => Err e
  | Fault x => Fault x
  end.

(* ---------------------------------------------------------------- security *)

Definition security_spec (v : view) (dd : option (N * N)) : res region :=
  if negb (v_file v) then Err EUnmapped
  else match dd with
  | None => Err EBounds
  | Some (va, size) =>
    if va =? 0 then Err ENull
    else if negb ((va mod 8 =? 0) && (size mod 8 =? 0)) then Err EMisaligned
    else if (size =? 0) || (v_len v <? va + size) then Err EBounds
    else Ok {| r_off := va; r_len := size |}
  end.
(* the certificate bytes: Size - 8 bytes at file offset VirtualAddress + 8 *)
Definition certificate_data_spec (dd : option (N * N)) : option region :=
  match dd with
  | Some (va, size) => Some {| r_off := va + 8; r_len := size - 8 |}
  | None => None
  end.

(* ---------------------------------------------------------------- debug *)

Definition dir_data_spec (v : view) (d : ddir) : option region :=
  let o := if v_file v then dd_ptr d else dd_addr d in
  if o + dd_size d <=? v_len v then Some {| r_off := o; r_len := dd_size d |} else None.

(* position of the first NUL among the [len] bytes at [off] (least index, counted upwards) *)
Definition first_nul (g : N -> N) (off len : N) : option N :=
  first_idx g (fun b => b =? 0) off 1 0 (N.to_nat len).
Definition cstr_spec (g : N -> N) (off len : N) : option region :=
  match first_nul g off len with
  | Some n => Some {| r_off := off; r_len := n + 1 |}
  | None => None
  end.

(* the four signature bytes *)
Definition sig_is (g : N -> N) (o a b c d : N) : bool :=
  (g o =? a) && (g (o + 1) =? b) && (g (o + 2) =? c) && (g (o + 3) =? d).

Definition entry_spec (v : view) (d : ddir) : res entry :=
  let g := v_get v in
  let data := dir_data_spec v d in
  let typed (min : N) (k : region -> res entry) : res entry :=
    match data with
    | None => Err EBounds
    | Some b => if r_len b <? min then Err EBounds
                else if negb ((v_addr v + r_off b) mod 4 =? 0) then Err EMisaligned
                else k b
    end in
  if dd_type d =? 2 then
    typed 16 (fun b =>
      if sig_is g (r_off b) 78 66 49 48 then         (* "NB10": timestamp, age, then the path *)
        match cstr_spec g (r_off b + 16) (r_len b - 16) with
        | Some n => Ok (ECv20 (r_off b) n) | None => Err EEncoding end
      else if sig_is g (r_off b) 82 83 68 83 then    (* "RSDS": GUID, age, then the path *)
        if r_len b <? 24 then Err EBounds
        else match cstr_spec g (r_off b + 24) (r_len b - 24) with
             | Some n => Ok (ECv70 (r_off b) n) | None => Err EEncoding end
      else Err EBadMagic)
  else if dd_type d =? 4 then typed 12 (fun b => Ok (EDbg (r_off b)))
  else if dd_type d =? 13 then typed 4 (fun b => Ok (EPgo {| r_off := r_off b; r_len := r_len b - r_len b mod 4 |}))
  else Ok (EUnknown data).

(* POGO: an independent WRITER.  A record is rva, size, the name bytes, a NUL, and zero padding up to
   the next dword boundary; the record stream follows one signature dword. *)
Record pgo_rec := { pr_rva : N; pr_size : N; pr_name : list N }.
Definition pad_len (n : N) : N := 3 - n mod 4.       (* zeros after the NUL so that n + 1 + pad is a multiple of 4 *)
Definition pgo_write_rec (r : pgo_rec) : list N :=
  le32 (pr_rva r) ++ le32 (pr_size r) ++ pr_name r ++ [0] ++ repeat 0 (N.to_nat (pad_len (lenN (pr_name r)))).
Definition pgo_write (rs : list pgo_rec) : list N := flat_map pgo_write_rec rs.
Definition pgo_rec_ok (r : pgo_rec) : Prop :=
  pr_rva r < W32 /\ pr_size r < W32 /\ Forall (fun b => 0 < b < 256) (pr_name r).
(* what the decoder should report for the records written at byte offset [off] *)
Fixpoint pgo_expect (rs : list pgo_rec) (off : N) : list pgo_item :=
  match rs with
  | [] => []
  | r :: rest =>
    {| pg_rva := pr_rva r; pg_size := pr_size r; pg_name := {| r_off := off + 8; r_len := lenN (pr_name r) + 1 |} |}
    :: pgo_expect rest (off + lenN (pgo_write_rec r))
  end.

(* a CHECKER for a claimed PGO record list over the [n] dwords at byte offset [off]: every record
   carries the two dwords and the NUL-terminated name found there, the next record starts
   2 + len(name)/4 + 1 dwords further, and the list stops only where fewer than three dwords remain
   or the rest holds no NUL *)
Definition optR_eqb (a b : option region) : bool :=
  match a, b with
  | Some x, Some y => region_eqb x y
  | None, None => true
  | _, _ => false
  end.
Fixpoint pgo_check (g : N -> N) (items : list pgo_item) (off n : N) : bool :=
  match items with
  | [] => (n <? 3) || match first_nul g (off + 8) (4 * (n - 2)) with None => true | Some _ => false end
  | it :: rest =>
    let step := 2 + (r_len (pg_name it) - 1) / 4 + 1 in
    (3 <=? n) && (pg_rva it =? u32at g off) && (pg_size it =? u32at g (off + 4)) &&
    optR_eqb (Some (pg_name it)) (cstr_spec g (off + 8) (4 * (n - 2))) &&
    (step <=? n) && pgo_check g rest (off + 4 * step) (n - step)
  end.
(* Pgo::iter skips the signature dword *)
Definition pgo_iter_check (g : N -> N) (image : region) (items : list pgo_item) : bool :=
  let n := r_len image / 4 in
  if 1 <=? n then pgo_check g items (r_off image + 4) (n - 1) else pgo_check g items (r_off image) n.

(* ---------------------------------------------------------------- comparison helpers for the oracle *)
Definition found_eqb (a b : found) : bool :=
  match a, b with
  | Found i, Found j => i =? j
  | Insert i, Insert j => i =? j
  | _, _ => false
  end.
Definition entry_eqb (a b : entry) : bool :=
  match a, b with
  | ECv20 i n, ECv20 j m => (i =? j) && region_eqb n m
  | ECv70 i n, ECv70 j m => (i =? j) && region_eqb n m
  | EDbg i, EDbg j => i =? j
  | EPgo r, EPgo s => region_eqb r s
  | EUnknown x, EUnknown y => optR_eqb x y
  | _, _ => false
  end.
Definition resE_eqb (a b : res entry) : bool :=
  match a, b with
  | Ok x, Ok y => entry_eqb x y
  | Err e, Err f => error_eqb e f
  | _, _ => false
  end.

(* the bytes [bs] are what the buffer holds from offset [off] on *)
Definition written (g : N -> N) (off : N) (bs : list N) : Prop :=
  forall k, k < lenN bs -> g (off + k) = nth (N.to_nat k) bs 0.

(* CodeView: an independent WRITER of the two record formats *)
Definition cv70_write (guid : list N) (age : N) (path : list N) : list N :=
  [82; 83; 68; 83] ++ guid ++ le32 age ++ path ++ [0].
Definition cv20_write (offset stamp age : N) (path : list N) : list N :=
  [78; 66; 49; 48] ++ le32 offset ++ le32 stamp ++ le32 age ++ path ++ [0].
Definition path_ok (path : list N) : Prop := Forall (fun b => 0 < b < 256) path.
