(* Vocabulary of the memory-safety statements (C01): where a returned borrow lies. *)
From PV.Model Require Import Machine Mapping Views.

(* the borrow [r] lies inside a buffer of [len] bytes *)
Definition region_in (len : N) (r : region) : Prop := r_off r + r_len r <= len.
(* the buffer at machine address [addr] lies in the 64-bit address space *)
Definition placed (addr len : N) : Prop := addr + len < W64.
(* what a slicing function promises: inside the buffer, at least the requested size, start address
   aligned as requested *)
Definition slice_safe (addr len : N) (min_size align : N) (r : region) : Prop :=
  region_in len r /\ min_size <= r_len r /\ (addr + r_off r) mod align = 0.
(* a typed result: inside the buffer and aligned for the element type *)
Definition typed_safe (addr len : N) (align : N) (r : region) : Prop :=
  region_in len r /\ (addr + r_off r) mod align = 0.
(* the two read paths of a view: by RVA (slice, the derva family) and by VA (read, the deref family) *)
Definition sl_of (v : view) (byva : bool) : N -> N -> N -> res region := if byva then read v else slice v.
