(* Spec for C06: what the mapped form of a file (and the file form of a mapped image) is,
   byte by byte, without loops over buffers and without wrapping arithmetic; the
   well-formedness of a section table the property's first quantifier speaks of; the two
   decidable known classes; and the boolean oracles evaluated on the implementation's output.
   Buffers are read through a function  N -> N  and a length, so that the oracles run on
   OCaml [Bytes] without materialising lists. *)
From PV.Model Require Import Machine Mapping.
From PV.Spec Require Import MappingSpec.

(* the bytes of a section that are both stored in the file and mapped *)
Definition mapped_len (s : section) : N := N.min (s_vs s) (s_srd s).

(* the section is copied at all: its virtual range lies inside the destination of [dlen]
   bytes and its raw range inside the source of [slen] bytes (no 32-bit wrap on either) *)
Definition copyable (slen dlen : N) (s : section) : bool :=
  (s_va s + s_vs s <=? dlen) && (s_va s + s_vs s <? W32) &&
  (s_prd s + s_srd s <=? slen) && (s_prd s + s_srd s <? W32).

(* byte i of the destination is written from section s *)
(* (nested [if]s rather than [&&] so that the extracted oracle tests the cheap bounds first) *)
Definition covers (slen dlen i : N) (s : section) : bool :=
  if s_va s <=? i then if i <? s_va s + mapped_len s then copyable slen dlen s else false else false.

(* [rsecs] is the section table in REVERSE order: the loop overwrites in table order, so
   the last section of the table that covers a byte decides it *)
Definition conv_byte_r (src : N -> N) (slen soh dlen : N) (rsecs : list section) (i : N) : N :=
  if dlen <=? i then 0 else
  match find (covers slen dlen i) rsecs with
  | Some s => src (s_prd s + (i - s_va s))
  | None => if i <? soh then src i else 0
  end.

(* to_view: byte i of the mapped form of the file (F, flen) *)
Definition view_byte (F : N -> N) (flen soh soi : N) (secs : list section) (i : N) : N :=
  conv_byte_r F flen soh soi (rev secs) i.

(* to_file is the same rule with the roles of the virtual and the raw range exchanged and
   the destination sized by the clamped file extent *)
Definition flip (s : section) : section :=
  {| s_va := s_prd s; s_vs := s_srd s; s_prd := s_va s; s_srd := s_vs s |}.
Definition file_extent_spec (soh : N) (secs : list section) : N :=
  fold_right (fun s a => N.max a ((s_prd s + s_srd s) mod W32)) soh secs.
Definition file_size_spec (soh soi : N) (secs : list section) : N := N.min (file_extent_spec soh secs) soi.
Definition file_byte (V : N -> N) (vlen soh soi : N) (secs : list section) (i : N) : N :=
  conv_byte_r V vlen soh (file_size_spec soh soi secs) (rev (map flip secs)) i.

(* ---- well-formed section tables (the generator's first stream) ---- *)
Fixpoint pairwise_b {A} (r : A -> A -> bool) (l : list A) : bool :=
  match l with [] => true | x :: t => forallb (r x) t && pairwise_b r t end.

Definition disjoint_v (s t : section) : bool :=
  (s_va s + vext s <=? s_va t) || (s_va t + vext t <=? s_va s).
Definition disjoint_r (s t : section) : bool :=
  (s_prd s + s_srd s <=? s_prd t) || (s_prd t + s_srd t <=? s_prd s).

(* every section's virtual extent max(VS,SRD) inside [SizeOfHeaders, SizeOfImage), its raw
   data inside the file, virtual extents pairwise disjoint *)
Definition sec_wf (flen soh soi : N) (s : section) : bool :=
  (soh <=? s_va s) && (s_va s + vext s <=? soi) && (s_prd s + s_srd s <=? flen) && (s_prd s + s_srd s <? W32).
Definition wf_sections (flen soh soi : N) (secs : list section) : bool :=
  (soi <? W32) && forallb (sec_wf flen soh soi) secs && pairwise_b disjoint_v secs.

(* for the way back: raw data behind the headers and pairwise disjoint *)
Definition wf_raw (soh : N) (secs : list section) : bool :=
  forallb (fun s => soh <=? s_prd s) secs && pairwise_b disjoint_r secs.

(* ---- known classes ---- *)
(* F33: to_file clamps the output to SizeOfImage; a file whose extent exceeds SizeOfImage
   cannot be reproduced (sections stored beyond that offset are lost) *)
Definition stored_beyond_size_of_image (soh soi : N) (secs : list section) : bool :=
  soi <? file_extent_spec soh secs.

(* F37: the file view serves max(VS,SRD) bytes of a section, to_view maps min(VS,SRD):
   a NON-ZERO stored byte at section offset >= VirtualSize is visible through the file
   view and zero in the converted image *)
Fixpoint any_from (n : nat) (i : N) (p : N -> bool) : bool :=
  match n with O => false | S k => if p i then true else any_from k (i + 1) p end.
Definition raw_tail_zero (F : N -> N) (s : section) : bool :=
  negb (any_from (N.to_nat (s_srd s - s_vs s)) (s_prd s + s_vs s) (fun o => negb (F o =? 0))).
Definition raw_tail_not_mapped (F : N -> N) (secs : list section) : bool :=
  existsb (fun s => negb (raw_tail_zero F s)) secs.

(* ---- oracles on the implementation's output ---- *)
Fixpoint all_from (n : nat) (i : N) (p : N -> bool) : bool :=
  match n with O => true | S k => if p i then all_from k (i + 1) p else false end.

(* theorem 1 (general form): the output has SizeOfImage bytes and every byte is the one the rule gives *)
Definition view_ok_b (F : N -> N) (flen soh soi : N) (secs : list section) (V : N -> N) (vlen : N) : bool :=
  let rs := rev secs in
  (vlen =? soi) && all_from (N.to_nat soi) 0 (fun i => V i =? conv_byte_r F flen soh soi rs i).
Definition file_ok_b (V : N -> N) (vlen soh soi : N) (secs : list section) (F' : N -> N) (flen' : N) : bool :=
  let rs := rev (map flip secs) in
  let fsz := file_size_spec soh soi secs in
  (flen' =? fsz) && all_from (N.to_nat fsz) 0 (fun i => F' i =? conv_byte_r V vlen soh fsz rs i).

(* theorem 1 in the words of the property, for a well-formed table *)
Definition view_words_b (F : N -> N) (soh soi : N) (secs : list section) (V : N -> N) : bool :=
  all_from (N.to_nat soh) 0 (fun i => V i =? F i) &&
  forallb (fun s => all_from (N.to_nat (mapped_len s)) 0 (fun i => V (s_va s + i) =? F (s_prd s + i)) &&
                    all_from (N.to_nat (vext s - mapped_len s)) (s_va s + mapped_len s) (fun i => V i =? 0)) secs &&
  all_from (N.to_nat (soi - soh)) soh
    (fun i => if V i =? 0 then true else existsb (fun s => if s_va s <=? i then i <? s_va s + vext s else false) secs).

(* theorem 3: the way back reproduces the headers and the stored-and-mapped bytes *)
Definition roundtrip_b (F : N -> N) (soh : N) (secs : list section) (F' : N -> N) (flen' : N) : bool :=
  (soh <=? flen') && all_from (N.to_nat soh) 0 (fun i => F' i =? F i) &&
  forallb (fun s => (s_prd s + mapped_len s <=? flen') &&
                    all_from (N.to_nat (mapped_len s)) 0 (fun i => F' (s_prd s + i) =? F (s_prd s + i))) secs.

(* theorem 2 on one observed pair of slices: [common] is the number of equal leading bytes
   the harness counted.  Returns (mapped part agrees, whole file slice is a prefix). *)
Definition prefix_b (secs : list section) (rva : N) (fres vres : res region) (common : N) : bool * bool :=
  match fres with
  | Ok r =>
    match first_v secs rva, vres with
    | Some s, Ok r' =>
      ((r_len r <=? r_len r') && (N.min (r_len r) (mapped_len s - (rva - s_va s)) <=? common),
       (r_len r <=? r_len r') && (r_len r <=? common))
    | _, _ => (false, false)
    end
  | _ => (true, true)
  end.
