From PV.Model Require Import Machine Mapping Views Exports.
From PV.Spec Require Import MappingSpec ViewSpec ExportSpec.
Require Import ExtrOcamlBasic.
Extraction Language OCaml.
Extraction "../ocaml/gen/exports_model.ml"
  view_by view_cstr by_spec cstr_spec get_export_ordinal get_export_name get_export_import
  index hint ordinal name_of_hint name_linear name hint_name import_ name_lookup
  iter iter_names iter_name_indices check_sorted get_proc_address
  symbol_from_rva_orig name_lookup_orig iter_name_indices_orig
  index_spec hint_spec ordinal_spec name_of_hint_spec name_linear_spec name_lookup_spec
  iter_spec iter_names_spec iter_name_indices_spec check_sorted_spec proc_address_spec
  name_ok hint_name_ok import_ok sortedb
  rexp_eqb rname_eqb rimp_eqb rN_eqb rbool_eqb list_eqb tables_eqb res_eqb export_eqb.
