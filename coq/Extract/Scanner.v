From PV.Model Require Import Machine Mapping Views Pattern Exec ScanView Scanner.
From PV.Spec Require Import MappingSpec ScanSpec.
Require Import ExtrOcamlBasic.
Extraction Language OCaml.
Extraction "../ocaml/gen/scanner_model.ml" setup matches next finds iterate view_exec
  window must_report sections_not_sorted scan_oracle finds_oracle captures_ok.
