From PV.Model Require Import Machine Rich.
From PV.Spec Require Import RichSpec.
Require Import ExtrOcamlBasic.
Extraction Language OCaml.
Extraction "../ocaml/gen/rich_model.ml" try_from xor_key records checksum checksum_of encode write_words rdecode rencode
  it_next it_nth it_next_back it_size_hint rich_checksum known_class well_formedb recs_eqb rec_okb.
