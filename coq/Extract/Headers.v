From PV.Model Require Import Machine Mapping Headers.
From PV.Spec Require Import HeaderSpec.
Require Import ExtrOcamlBasic.
Extraction Language OCaml.
Extraction "../ocaml/gen/headers_model.ml"
  fmt32 fmt64 validate wrap_from_bytes accessors data_dir sections by_name by_rva check_sum h_soi h_soh h_base h_nrva
  rd32 acceptb pe_checksum s_soi s_soh.
