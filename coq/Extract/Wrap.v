From PV.Model Require Import Machine Mapping Views Headers Wrap WrapDirs Json WrapJson WrapJsonRes.
From PV.Model Require Resources.
From PV.Model Require Exports Imports Dirs.
From PV.Spec Require Import HeaderSpec WrapSpec WrapResSpec.
Require Import ExtrOcamlBasic.
Extraction Language OCaml.
Extraction "../ocaml/gen/wrap_model.ml"
  fmt32 fmt64 fmt_of validate wrap_from_bytes dispatch
  wrap_accessors wrap_data_directory wrap_section_headers wrap_by_rva wrap_slice wrap_slice_bytes
  wrap_get_section_bytes wrap_derva wrap_derva_copy wrap_derva_slice wrap_derva_slice_s wrap_derva_slice_f wrap_derva_c_str
  wrap_check_sum wrap_code_range wrap_image_range
  op_accessors op_data_directory op_section_headers op_by_rva op_slice op_slice_bytes op_get_section_bytes
  op_derva op_derva_copy op_derva_slice op_derva_slice_s op_derva_slice_f op_derva_c_str op_check_sum op_code_range op_image_range
  details_dd_sections details_dd_sections_orig acc_exports acc_tls acc_load_config acc_debug acc_base_relocs
  acc_security acc_security_orig json_is_null le_value rd32 by_name
  select_spec select_ok fmt_by_magic details_ok details_spec null_ok acceptb
  (* second round: the directory wrappers and the JSON model *)
  pe_of op_exports_by op_cstr wrap_exports_by wby_iter wby_iter_names wby_iter_name_indices
  Exports.iter Exports.iter_names Exports.iter_name_indices
  op_imports op_descs op_desc_int wrap_imports_iter wrap_desc_int wrap_desc_iat op_desc_iat winto
  op_debug op_debug_dirs wrap_debug_iter op_tls op_load_config op_security op_exception
  trimn sec_name_bytes
  json_of_image wrap_json wrap_json_text print_json parse_json well_formed json_get jfield jindex jkeys utf8_valid
  json_text_ok drop_member k_resources
  (* third round: the `resources` member *)
  json_of_image_full wrap_json_full json_resources json_directory json_dir_entry json_resources_member acc_resources jwalk JRES_DEPTH json_text_full_ok
  Resources.root Resources.fsck_budget Resources.entries Resources.e_name Resources.e_entry Resources.rsrc_type Resources.decode_utf16
  jentries jdepth.
