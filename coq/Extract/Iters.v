From PV.Model Require Import Machine Rich Relocs Strings Iters ItersMore.
From PV.Spec Require Import Deque.
Require Import ExtrOcamlBasic.
Extraction Language OCaml.
Extraction "../ocaml/gen/iters_model.ml" m_step m_run items
  rich_impl rich_impl_orig rich_records_iter rich_next Rich.try_from
  blk_impl blk_next blk_measure str_impl str_next str_measure pgo_impl pgo_next pgo_measure
  deleg_impl sl_next wrap_impl
  Deque.step Deque.run Deque.out_okb Deque.outs_okb
  range_impl map_impl zip_impl erase
  exp_iter_impl exp_names_impl exp_names_start exp_nidx_impl exp_nidx_start
  res_all res_named res_id entries_impl wrap_entries_impl wrap_slice_impl wrap_int_impl icons_impl icons_start
  out_eqb outs_eqb
  slice_impl exc_functions_impl sections_iter_impl filter_map_impl to_strs_impl to_strs_start.
