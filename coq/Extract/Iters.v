From PV.Model Require Import Machine Rich Relocs Strings Iters.
From PV.Spec Require Import Deque.
Require Import ExtrOcamlBasic.
Extraction Language OCaml.
Extraction "../ocaml/gen/iters_model.ml" m_step m_run items
  rich_impl rich_impl_orig rich_records_iter rich_next Rich.try_from
  blk_impl blk_next blk_measure str_impl str_next str_measure pgo_impl pgo_next pgo_measure
  deleg_impl sl_next wrap_impl
  Deque.step Deque.run Deque.out_okb Deque.outs_okb.
