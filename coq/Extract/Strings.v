From PV.Model Require Import Machine Strings.
From PV.Spec Require Import Runs.
Require Import ExtrOcamlBasic.
Extraction Language OCaml.
Extraction "../ocaml/gen/strings_model.ml" enumerate enumerate_spec founds_eqb next.
