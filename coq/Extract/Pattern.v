From PV.Model Require Import Machine Mapping Views Pattern Exec ScanView.
From PV.Spec Require Import PatSyntax PatSem PatRead.
Require Import ExtrOcamlBasic.
Extraction Language OCaml.
Extraction "../ocaml/gen/pattern_model.ml" parse save_len view_exec show compile den_top apply_log scan_of_view
  range_skip_in_last_alternative_with_suffix untrimmed noalt trims_only_braces
  read_pat wfb accepted_ok documented.
