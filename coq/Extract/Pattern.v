From PV.Model Require Import Machine Mapping Views Pattern Exec ScanView.
Require Import ExtrOcamlBasic.
Extraction Language OCaml.
Extraction "../ocaml/gen/pattern_model.ml" parse save_len view_exec.
