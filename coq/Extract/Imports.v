From PV.Model Require Import Machine Mapping Views Headers Imports.
From PV.Spec Require Import MappingSpec ViewSpec ImportSpec.
Require Import ExtrOcamlBasic.
Extraction Language OCaml.
Extraction "../ocaml/gen/imports_model.ml"
  fmt32 fmt64 validate sections h_nsec h_soh h_soi h_base imports descs dll_name desc_iat desc_int thunks thunk_values import_from_va int_imports iat iat_iter
  le_value dir_spec desc_field thunk_spec imports_spec c_string_spec thunks_spec import_spec iat_spec
  resR_eqb resI_eqb.
