From PV.Model Require Import Machine Mapping Views.
From PV.Spec Require Import MappingSpec ViewSpec.
Require Import ExtrOcamlBasic.
Extraction Language OCaml.
Extraction "../ocaml/gen/views_model.ml"
  rva_to_file_offset file_offset_to_rva slice read rva_to_va va_to_rva get_section_bytes
  rd rd_copy rd_slice rd_slice_s rd_c_str le_value
  rva_to_file_offset_spec file_offset_to_rva_spec slice_spec read_spec rva_to_va_spec va_to_rva_spec
  get_section_bytes_spec slice_f_spec c_str_spec inversion_ok resN_eqb resR_eqb.
