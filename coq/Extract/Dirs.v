From PV.Model Require Import Machine Mapping Views Dirs DirsFields.
From PV.Spec Require Import MappingSpec ViewSpec DirSpec DirShape.
Require Import ExtrOcamlBasic.
Extraction Language OCaml.
Extraction "../ocaml/gen/dirs_model.ml"
  data_dir u8at u16at u32at u64at le_value slice read
  exception_try_from exception_functions check_sorted index_of index_of_orig lookup_function_entry
  function_bytes unwind_info uw_version uw_flags uw_size_of_prolog uw_count uw_frame_register uw_frame_offset uw_codes
  security_try_from security_try_from_orig certificate_type certificate_data
  sec_length sec_revision certificate_bytes entry_fields security_fields_shape entry_fields_shape unwind_fields_shape
  debug_try_from debug_dirs dir_data dir_entry pdb_file_name pgo_iter
  tls_try_from tls_start tls_end tls_index tls_cb tls_raw_data tls_slot tls_callbacks
  load_config_try_from lc_cookie_ptr lc_table_ptr lc_count lc_security_cookie lc_se_handler_table
  va_size tls_dir_size lc_dir_size
  exception_spec debug_spec struct_spec index_ok index_rel function_bytes_spec unwind_info_spec
  security_spec certificate_data_spec dir_data_spec entry_spec pgo_iter_check
  slice_spec read_spec slice_f_spec
  resN_eqb resR_eqb optR_eqb resE_eqb found_eqb.
