From PV.Model Require Import Machine Mapping Views Headers Convert.
From PV.Model Require Exports Imports Dirs Resources.
From PV.Spec Require Import MappingSpec ConvertSpec ConvertSimSpec.
Require Import ExtrOcamlBasic.
Extraction Language OCaml.

(* third layer: the query kinds r (resources), m (debug directory with payloads and entries), u (exception directory with
   function bytes and unwind info) - under names of their own, the extraction flattens all modules into one file *)
Definition x_resources : view -> option (N * N) -> res Resources.rsec := view_resources.
Definition x_root : Resources.rsec -> res N := Resources.root.
Definition x_walk : nat -> Resources.rsec -> N -> N -> N -> list Resources.witem * N := Resources.walk.
Definition x_fsck : Resources.rsec -> res unit := Resources.fsck.
Definition x_find_resource : Resources.rsec -> N -> N -> Resources.fres region :=
  fun s a b => Resources.find_resource 48 s (Resources.NId a) (Resources.NId b).
Definition x_sec_bytes : Resources.rsec -> N -> N -> list N := Resources.sec_bytes.
Definition x_debug_try_from : view -> option (N * N) -> res region := Dirs.debug_try_from.
Definition x_debug_dirs : view -> region -> list Dirs.ddir := Dirs.debug_dirs.
Definition x_dir_data : view -> Dirs.ddir -> option region := Dirs.dir_data.
Definition x_dir_entry : view -> Dirs.ddir -> res Dirs.entry := Dirs.dir_entry.
Definition x_exception_try_from : view -> option (N * N) -> res region := Dirs.exception_try_from.
Definition x_exception_functions : view -> region -> list Dirs.rfun := Dirs.exception_functions.
Definition x_function_bytes : view -> Dirs.rfun -> res region := Dirs.function_bytes.
Definition x_unwind_info : view -> Dirs.rfun -> res region := Dirs.unwind_info.
Definition x_unwind_vals : (N -> N) -> region -> N * N * N * N * N * N * list N := unwind_vals.
Definition x_debug_consistent : (N -> N) -> N -> list section -> N -> N -> N -> bool :=
  fun F soh secs size addr ptr =>
    debug_entry_consistent F soh secs
      {| Dirs.dd_off := 0; Dirs.dd_time := 0; Dirs.dd_type := 0; Dirs.dd_size := size; Dirs.dd_addr := addr; Dirs.dd_ptr := ptr |}.

Extraction "../ocaml/gen/convert_model.ml"
  pe_to_view pe_to_file to_view to_file validate sections h_soh h_soi data_dir fmt32 fmt64
  slice_file slice_section get_section_bytes rd_c_str
  view_ok_b file_ok_b view_words_b roundtrip_b prefix_b wf_sections wf_raw first_v mapped_len
  stored_beyond_size_of_image raw_tail_not_mapped file_size_spec
  h_base Exports.view_by Imports.imports Imports.descs Imports.dll_name Imports.desc_iat Imports.thunk_values relocs_try_from
  x_resources x_root x_walk x_fsck x_find_resource x_sec_bytes
  x_debug_try_from x_debug_dirs x_dir_data x_dir_entry
  x_exception_try_from x_exception_functions x_function_bytes x_unwind_info x_unwind_vals
  x_debug_consistent prd_va_congruent stored_at.
