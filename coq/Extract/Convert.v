From PV.Model Require Import Machine Mapping Views Headers Convert.
From PV.Model Require Exports Imports.
From PV.Spec Require Import MappingSpec ConvertSpec ConvertSimSpec.
Require Import ExtrOcamlBasic.
Extraction Language OCaml.
Extraction "../ocaml/gen/convert_model.ml"
  pe_to_view pe_to_file to_view to_file validate sections h_soh h_soi data_dir fmt32 fmt64
  slice_file slice_section get_section_bytes rd_c_str
  view_ok_b file_ok_b view_words_b roundtrip_b prefix_b wf_sections wf_raw first_v mapped_len
  stored_beyond_size_of_image raw_tail_not_mapped file_size_spec
  h_base Exports.view_by Imports.imports Imports.descs Imports.dll_name Imports.desc_iat Imports.thunk_values relocs_try_from.
