From PV.Model Require Import Machine Util.
From PV.Spec Require Import UtilSpec.
Require Import ExtrOcamlBasic.
Extraction Language OCaml.
Extraction "../ocaml/gen/util_model.ml"
  decode_all fmt_display fmt_debug from_words from_bytes as_ref from_str to_string eq_str
  strn wstrn trimn parsen
  guid_of_bytes guid_lower_dashed guid_lower_hex guid_upper_hex
  ptr_member ptr_offset ptr_at ptr_display ptr_hex
  flag_str parse_flag to_strs enum_to_str enum_from_str
  file_chars_table dll_chars_table section_chars_table
  machine_table optional_magic_table subsystem_table directory_entry_table resource_name_table
  reloc_type_table unwind_op_table unwind_flag_table debug_type_table
  utf16_decode_spec lossy utf8_decode utf8_valid utf8_encode_all unescape_debug display_ok debug_ok display_bound debug_bound
  wide_invb from_words_spec from_bytes_spec from_str_spec from_str_faults to_string_spec eq_str_spec
  take_nonzero trim_spec parsen_spec hex_fixed guid_spec
  ptr_member_spec ptr_at_spec enum_to_str_spec enum_from_str_spec parse_flag_spec lookup_flag ptr_display_spec fmt_hex_spec
  to_strs_spec names_eqb flag_table_wf enum_table_wf nlist_eqb.
