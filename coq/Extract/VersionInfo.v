From PV.Model Require Import Machine VersionInfo.
From PV.Spec Require Import TlvEnc.
Require Import ExtrOcamlBasic.
Extraction Language OCaml.
Extraction "../ocaml/gen/versioninfo_model.ml"
  api_events api_fixed api_translation api_value api_strings api_file_info api_source_code
  encode events_of vinfo_ok fixed_of translation_of spec_value spec_strings dump_agrees dump_lookup source_of
  well_nested lang_parse wf_utf16 parse_tlv parser_next.
