From PV.Model Require Import Machine Pattern Unescape Codegen.
From PV.Spec Require Import RustLiteral RustTokens.
Require Import ExtrOcamlBasic.
Extraction Language OCaml.
Extraction "../ocaml/gen/unescape_model.ml" parse macro_model macro_model_orig parse_str_literal utf8_encode utf8_decode
  normalize_crlf rust_token rust_unescape rust_lex_ok escape_not_supported_by_macro c17_oracle
  fmt_dec debug_atom debug_atoms format_string rust_format expansion macro_expansion
  tokenize eval_tokens eval_expansion atom_eqb codegen_oracle.
