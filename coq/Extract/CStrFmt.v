From PV.Model Require Import Machine CStrFmt.
Require Import ExtrOcamlBasic.
Extraction Language OCaml.
Extraction "../ocaml/gen/cstrfmt_model.ml" cstr_debug cstr_display.
