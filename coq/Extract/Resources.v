From PV.Model Require Import Machine Mapping Views Resources ResourcesArt.
From PV.Spec Require Import ResTree Ico.
From PV.Spec Require Cur.
Require Import ExtrOcamlBasic.
Extraction Language OCaml.
Extraction "../ocaml/gen/resources_model.ml"
  root walk fsck fsck_orig display_lines e_name e_entry entries
  dir_get get_dir get_data first first_data first_dir find_resources find_resource find_resource_ex find_path
  manifest version_info group_list group_new g_type g_entries ge_bytes_in_res ge_id g_image group_write group_write_orig
  pe_resources name_eq eq_string display_id sec_bytes
  name_matches t_get_ent t_get_dir t_find_resource t_find_resource_ex t_find_parts t_first as_bytes_l tgt_ent
  items_clean complete walk_sound kids_of t_manifest t_groups utf8_valid g_count
  display_text
  ico_encode Cur.encode_file Cur.of_resources Cur.to_resources Cur.file_size.
