From PV.Model Require Import Machine Relocs Checked.
From PV.Spec Require Import RelocSpec.
Require Import ExtrOcamlBasic.
Extraction Language OCaml.
Extraction "../ocaml/gen/c14_model.ml" blocks fold_pairs build parse_ok build_pre build_ok flat_spec reloc_parse_chk fold_pairs_chk.
