#!/bin/bash
# usage: merge_agent.sh Cnn   - copies the NEW files of a builder sandbox /tmp/ag-Cnn/verif into /verif,
# lists shared files that differ, and lists the fix: commits of its repo worktree (cherry-pick them by hand).
P="$1"; S=/tmp/ag-$P/verif; R=/tmp/ag-$P/repo
cd /verif || exit 1
for d in coq/Model coq/Spec coq/Proofs coq/Properties coq/Extract ocaml harness/src harness/src/bin lib/props.d docs tools; do
  for f in $S/$d/*; do
    [ -f "$f" ] || continue
    b=$(basename "$f")
    case "$b" in *.vo|*.vok|*.vos|*.glob|*.aux|.*) continue;; esac
    if [ ! -e "$d/$b" ]; then cp "$f" "$d/$b"; echo "NEW  $d/$b";
    elif ! cmp -s "$f" "$d/$b"; then echo "DIFF $d/$b"; fi
  done
done
mkdir -p corpus/$P; cp -n $S/corpus/$P/*.case corpus/$P/ 2>/dev/null; ls corpus/$P | sed "s|^|CORPUS corpus/$P/|"
for f in lib/vcheck.py lib/props.py harness/Cargo.toml; do cmp -s $S/$f $f || echo "DIFF $f"; done
echo "--- KNOWN_FINDINGS lines added in the sandbox:"
diff <(sort KNOWN_FINDINGS.txt) <(sort $S/KNOWN_FINDINGS.txt) | grep '^>' 
echo "--- fix commits:"
git -C $R log --oneline --reverse $(git -C /repo merge-base HEAD $(git -C $R rev-parse HEAD))..$(git -C $R rev-parse HEAD)
git -C $R status --short | head
