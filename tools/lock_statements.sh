#!/bin/sh
# Pins (1) the statement files and the Spec files byte for byte, and (2) the STATEMENT HASH (tools/stmt_hash.py: text
# without comments and proof scripts) of every Model/ and Proofs/ file, because pinned theorems mention definitions that
# live there (view_ok, is_pow2, run_sound, items, ordered, ...): redefining one of them would change what a theorem
# says without touching Properties/ or Spec/.  coq/gen/*.v is regenerated from the source on every run and is not
# pinned; neither is Model/WrapStrTab.v, which tools/gen_strtab.py rewrites from src/stringify.rs on every run (a mirror, not a
# spec: the hand-transcribed tables of Model/Util.v and the util correspondence are what a swapped name trips).  Run deliberately after reviewing a change.
cd "$(dirname "$0")/../coq" && { sha256sum Properties/*.v Spec/*.v; python3 ../tools/stmt_hash.py $(ls Model/*.v Proofs/*.v | grep -v '^Model/WrapStrTab.v$'); } > ../statements.lock
wc -l ../statements.lock
python3 ../tools/closure_audit.py || echo "lock_statements: files outside every property closure - Require them from a Properties file"
