#!/bin/sh
# Pins (1) the statement files and the Spec files byte for byte, and (2) the STATEMENT HASH (tools/stmt_hash.py: text
# without comments and proof scripts) of every Model/ and Proofs/ file, because pinned theorems mention definitions that
# live there (view_ok, is_pow2, run_sound, items, ordered, ...): redefining one of them would change what a theorem
# says without touching Properties/ or Spec/.  coq/gen/*.v is regenerated from the source on every run and is not
# pinned.  Run deliberately after reviewing a change.
cd "$(dirname "$0")/../coq" && { sha256sum Properties/*.v Spec/*.v; python3 ../tools/stmt_hash.py Model/*.v Proofs/*.v; } > ../statements.lock
wc -l ../statements.lock
