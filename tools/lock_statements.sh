#!/bin/sh
# pin the statement files; run deliberately after reviewing a change to Properties/
cd "$(dirname "$0")/../coq" && sha256sum Properties/*.v > ../statements.lock
