#!/bin/sh
# pin the statement files AND the Spec files that give them their meaning; run deliberately after reviewing a change
cd "$(dirname "$0")/../coq" && sha256sum Properties/*.v Spec/*.v > ../statements.lock
