#!/usr/bin/env python3
"""Self-test of the regenerated leaf functions (tools/gen_leaf.py, coq/gen/Leaf.v, coq/Proofs/Leaf*.v): applies small
changes to the Rust source of a PRIVATE worktree, regenerates, rebuilds the Leaf proofs with `make -k` and reports
which proof files stop building.  Semantic changes must break the proof of the module they touch (and only that one);
semantics-preserving rewrites are recorded either way.  The worktree is restored with `git checkout -- .` after every
change.  usage: leaf_selftest.py <repo worktree (clean)>   (run from anywhere; builds in ../coq with -j4)"""
import os, re, subprocess, sys

VERIF = os.path.dirname(os.path.dirname(os.path.abspath(__file__)))
COQ = os.path.join(VERIF, "coq")
repo = sys.argv[1]
MODS = ["LeafStrings", "LeafRelocs", "LeafRich", "LeafAlign", "LeafDirs", "LeafResources", "LeafImports", "LeafWrap", "LeafExports"]

# (id, kind, file, old text, new text, module expected to break or None)
CHANGES = [
    ("M1", "semantic", "src/strings.rs", "byte < 0x7f", "byte <= 0x7f", "LeafStrings"),
    ("M2", "semantic", "src/base_relocs.rs", "let offset = (word & 0x0fff) as u32;", "let offset = (word & 0x1fff) as u32;", "LeafRelocs"),
    ("M3", "semantic", "src/base_relocs.rs", "(word >> 12) as u8", "(word >> 11) as u8", "LeafRelocs"),
    ("M4", "semantic", "src/rich_structure.rs", "let value = (self.product as u32) << 16 | (self.build as u32);",
     "let value = (self.build as u32) << 16 | (self.product as u32);", "LeafRich"),
    ("M5", "semantic", "src/pe64/exception.rs", "self.image.VersionFlags >> 3", "self.image.VersionFlags >> 4", "LeafDirs"),
    ("M6", "semantic", "src/resources/mod.rs", "self.image.Offset & 0x80000000 != 0\n\t}", "self.image.Offset & 0x40000000 != 0\n\t}", "LeafResources"),
    ("M7", "semantic", "src/pe64/exports.rs", "rva - self.datadir.VirtualAddress < self.datadir.Size", "rva - self.datadir.VirtualAddress <= self.datadir.Size", "LeafExports"),
    ("M8", "semantic", "src/pe64/headers.rs", "optional_header.BaseOfCode..u32::wrapping_add(", "optional_header.SizeOfCode..u32::wrapping_add(", "LeafWrap"),
    ("M9", "semantic", "src/pe64/imports.rs", "rva.checked_add(2)", "rva.checked_add(1)", "LeafImports"),
    ("M10", "semantic", "src/util/align.rs", "self.wrapping_add(mask) & !mask", "self.wrapping_add(align) & !mask", "LeafAlign"),
    ("M11", "panic behaviour", "src/base_relocs.rs", "(((rva - base) | (ty as u32) << 12) & 0xffff) as u16",
     "(((rva.wrapping_sub(base)) | (ty as u32) << 12) & 0xffff) as u16", "LeafRelocs"),
    ("M12", "panic behaviour (F6 reverted)", "src/pe64/exports.rs", "rva - self.datadir.VirtualAddress < self.datadir.Size",
     "rva < self.datadir.VirtualAddress + self.datadir.Size", "LeafExports"),
    ("M13", "semantic", "src/rich_structure.rs", "let total_size = (((xor_key / 32) % 3) as usize + n) * 8 + 0x20;",
     "let total_size = (((xor_key / 32) % 3) as usize + n) * 8 + 0x10;", "LeafRich"),
    ("M14", "semantic", "src/pe64/imports.rs", "ord: va as Ordinal", "ord: (va >> 16) as Ordinal", "LeafImports"),
    ("M15", "semantic (type of a parameter)", "src/base_relocs.rs", "pub fn type_of(&self, word: &u16) -> u8", "pub fn type_of(&self, word: &u32) -> u8", "LeafRelocs"),
    ("M16", "semantic (image.rs constant)", "src/image.rs", "pub const IMAGE_ORDINAL_FLAG64: u64 = 0x8000000000000000;",
     "pub const IMAGE_ORDINAL_FLAG64: u64 = 0x4000000000000000;", "LeafImports"),
    ("X1", "outside the subset", "src/strings.rs", "\tif byte >= 0x20 {\n\t\tbyte < 0x7f\n\t}", "\tif byte >= 0x20 {\n\t\tmatch byte { 0x7f => false, _ => true }\n\t}", "LeafStrings"),
    ("X2", "function removed", "src/base_relocs.rs", "pub fn type_of(", "pub fn kind_of(", "LeafRelocs"),
    ("P1", "preserving", "src/strings.rs", "if byte >= 0x20 {", "if 0x20 <= byte {", None),
    ("P2", "preserving", "src/strings.rs", "byte < 0x7f", "byte <= 0x7e", None),
    ("P3", "preserving", "src/base_relocs.rs", "(word >> 12) as u8", "(word / 4096) as u8", None),
    ("P4", "preserving", "src/resources/mod.rs", "self.image.Offset & 0x80000000 != 0\n\t}", "self.image.Offset & 0x80000000 == 0x80000000\n\t}", None),
    ("P5", "preserving", "src/pe64/exception.rs", "self.image.VersionFlags & 0b00000111", "self.image.VersionFlags % 8", None),
    ("P6", "preserving", "src/rich_structure.rs", "let product = ((field >> 16) & 0xffff) as u16;", "let product = (field >> 16) as u16;", None),
    ("P7", "preserving", "src/pe64/exports.rs", "rva >= self.datadir.VirtualAddress && rva - self.datadir.VirtualAddress < self.datadir.Size",
     "self.datadir.VirtualAddress <= rva && self.datadir.Size > rva - self.datadir.VirtualAddress", None),
    ("P8", "preserving", "src/util/align.rs", "self.wrapping_add(mask) & !mask", "!mask & self.wrapping_add(mask)", None),
]

def sh(cmd, cwd=None):
    p = subprocess.run(cmd, cwd=cwd, stdout=subprocess.PIPE, stderr=subprocess.STDOUT, text=True)
    return p.returncode, p.stdout

def build():
    rc, out = sh([sys.executable, os.path.join(VERIF, "tools", "gen_leaf.py"), repo, os.path.join(COQ, "gen")])
    gen = "ok" if rc == 0 else "FAILED: " + " | ".join(l for l in out.strip().split("\n") if l.startswith("gen_leaf"))
    targets = ["Proofs/%s.vo" % m for m in MODS]
    rc2, out2 = sh(["timeout", "3000", "make", "-k", "-j4"] + targets, cwd=COQ)
    if re.search(r"gen/Leaf\.vo\] Error", out2):
        return gen + "; gen/Leaf.v does not compile", list(MODS)
    broken = [m for m in MODS if not os.path.exists(os.path.join(COQ, "Proofs", m + ".vo")) or re.search(r"Proofs/%s\.vo\] Error" % m, out2)]
    return gen, broken

def main():
    rc, out = sh(["git", "-C", repo, "status", "--porcelain", "--untracked-files=no"])
    if out.strip():
        sys.exit("the worktree %s is not clean" % repo)
    leaf = os.path.join(COQ, "gen", "Leaf.v")
    gen, broken = build()
    print("baseline: generator %s, broken: %s" % (gen, broken or "none"))
    base = open(leaf).read()
    rows = []
    for cid, kind, path, old, new, expect in CHANGES:
        full = os.path.join(repo, path)
        src = open(full).read()
        if src.count(old) != 1:
            rows.append((cid, kind, path, "NOT APPLIED (%d occurrences of the text)" % src.count(old), "", "")); continue
        open(full, "w").write(src.replace(old, new))
        try:
            gen, broken = build()
            same = open(leaf).read() == base
        finally:
            sh(["git", "-C", repo, "checkout", "--", "."])
        if expect is None:
            verdict = "proofs survive" if not broken else "proof of %s breaks although the meaning is unchanged" % ",".join(broken)
        else:
            verdict = "caught" if broken == [expect] else ("caught (also %s)" % broken if expect in broken else "MISSED")
        rows.append((cid, kind, "%s: `%s` -> `%s`" % (path, old.replace("\n", " ").replace("\t", ""), new.replace("\n", " ").replace("\t", "")),
                     "generator " + gen, "Leaf.v unchanged" if same else "Leaf.v changed", verdict))
        print(" | ".join(rows[-1]), flush=True)
    gen, broken = build()
    print("restored: generator %s, broken: %s, Leaf.v %s" % (gen, broken or "none", "identical to the baseline" if open(leaf).read() == base else "DIFFERS"))

if __name__ == "__main__":
    main()
