#!/bin/bash
# usage: mk_seed_sandbox.sh Cnn -> /tmp/seed-Cnn : scratch worktree of /repo with only the property text (nothing from /verif)
P="$1"; D=/tmp/seed-$P
[ -d "$D" ] || git -C /repo worktree add -q --detach "$D" HEAD
python3 - "$P" <<'PY'
import json,sys
pid=sys.argv[1]
for l in open('/verif/properties.jsonl'):
    d=json.loads(l)
    if d['id']==pid:
        open('/tmp/seed-%s/PROPERTY.txt'%pid,'w').write("Property %s: %s\n\nStatement: %s\n\nQuantifier: %s\n\nAnchors: %s\n" % (d['id'], d['title'], d['statement'], d['quantifier']['text'], json.dumps(d['anchors'], indent=1)))
PY
echo "$D ready"
