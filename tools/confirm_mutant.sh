#!/bin/bash
# usage: confirm_mutant.sh <worktree> <k> <prop> <seedid>
# Re-confirms a seeded change in its scratch worktree: existing suite passes with the patch, the demo fails
# with it and passes without it. On success stores it under /verif/seeded/<seedid>/.
W="$1"; K="$2"; PROP="$3"; ID="$4"
export CARGO_NET_OFFLINE=true CARGO_TARGET_DIR="$W/target"
cd "$W" || exit 2
git checkout -q -- src; rm -f tests/seed_demo.rs
git apply "_out/$K/patch.diff" || { echo "$ID: patch does not apply"; exit 1; }
SUITE=$(cargo test --workspace --offline 2>&1 | grep -E "^test result" | awk '{p+=$4; f+=$6} END {print p" "f}')
cp "_out/$K/demo.rs" tests/seed_demo.rs
cargo test --offline $EXTRA --test seed_demo >/tmp/confirm-$ID.with 2>&1; WITH=$?
git checkout -q -- src
cargo test --offline $EXTRA --test seed_demo >/tmp/confirm-$ID.without 2>&1; WITHOUT=$?
rm -f tests/seed_demo.rs
echo "$ID: suite(passed failed)=$SUITE demo_with_patch_exit=$WITH demo_without_patch_exit=$WITHOUT"
if [ "$SUITE" = "73 0" ] && [ $WITH -ne 0 ] && [ $WITHOUT -eq 0 ]; then
  mkdir -p /verif/seeded/$ID && cp "_out/$K/patch.diff" "_out/$K/demo.rs" /verif/seeded/$ID/ && cp "_out/$K/notes.md" /verif/seeded/$ID/notes.md
  echo "$ID: CONFIRMED"
else
  echo "$ID: NOT CONFIRMED"
fi
