#!/bin/bash
# usage: merge_deepen.sh Cnn file...   - copies NEW files of the sandbox and overwrites the listed (property-owned) files
P="$1"; shift; S=/tmp/ag-$P/verif
cd /verif || exit 1
tools/merge_agent.sh $P | grep -v "^DIFF harness/src/lib.rs\|^DIFF lib/vcheck.py\|^DIFF harness/Cargo.toml\|^> "
for f in "$@"; do if [ -f "$S/$f" ]; then cp "$S/$f" "$f" && echo "UPDATED $f"; else echo "MISSING $f"; fi; done
cp -n $S/corpus/$P/*.case corpus/$P/ 2>/dev/null
