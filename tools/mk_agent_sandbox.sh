#!/bin/bash
# usage: mk_agent_sandbox.sh Cnn   -> /tmp/ag-Cnn/{verif,repo}: a private copy of the framework and a worktree of /repo
P="$1"; D=/tmp/ag-$P
rm -rf "$D/verif"; mkdir -p "$D"
rsync -a --exclude .git --exclude .cache --exclude replays --exclude seeded --exclude evidence /verif/ "$D/verif/"
mkdir -p "$D/verif/replays" "$D/verif/evidence"
[ -d "$D/repo" ] || git -C /repo worktree add -q --detach "$D/repo" HEAD
sed -i "s|path = \"/repo\"|path = \"$D/repo\"|" "$D/verif/harness/Cargo.toml"
sed -i "s|/verif/.cache/target|$D/verif/.cache/target|" "$D/verif/harness/.cargo/config.toml"
rm -f "$D/verif/harness/Cargo.lock"
echo "export PELITE_REPO=$D/repo" > "$D/env.sh"
echo "$D ready"
