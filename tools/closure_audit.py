#!/usr/bin/env python3
"""Every Model/*.v and Proofs/*.v must lie in the dependency closure of some Properties/Cnn.v: a file outside every
closure is rebuilt by no check and its statement hash is compared by none (third audit, F5).  Exit 1 listing orphans."""
import glob, os, sys
V = os.path.dirname(os.path.dirname(os.path.abspath(__file__)))
sys.path.insert(0, os.path.join(V, "lib"))
import vcheck
from props import PROPS
seen = set()
for pid in PROPS:
    seen.update(vcheck.stmt_closure(pid))
allowed = {"Proofs/LeafProofs.v"}   # aggregator that only Requires the per-module Leaf*.v files
orphans = [f for f in sorted(glob.glob(os.path.join(V, "coq", "Model", "*.v")) + glob.glob(os.path.join(V, "coq", "Proofs", "*.v")))
           if os.path.relpath(f, os.path.join(V, "coq")) not in seen | allowed]
for f in orphans:
    print("ORPHAN (in no property's closure): " + os.path.relpath(f, V))
sys.exit(1 if orphans else 0)
