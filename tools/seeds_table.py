#!/usr/bin/env python3
"""Prints the markdown table of seeded changes (seeded/*/meta.json) for DESIGN.md section 13.3."""
import glob, json, os
V = os.path.dirname(os.path.dirname(os.path.abspath(__file__)))
rows = []
for f in sorted(glob.glob(os.path.join(V, "seeded", "*", "meta.json"))):
    m = json.load(open(f))
    rows.append((m["id"], m["breaks_property"], m["detected_by_check"], m.get("also_detected_by", ""), m["needs_to_manifest"].replace("|", "\\|")))
print("| seed | property | caught by its check | also caught by | what it is / what it needs to manifest |")
print("|---|---|---|---|---|")
for r in rows:
    print("| %s | %s | %s | %s | %s |" % r)
print()
print("%d seeded changes; %d caught at first run, %d after strengthening the generator or oracle, %d missed." % (
    len(rows), sum(1 for r in rows if r[2] == "yes"), sum(1 for r in rows if r[2].startswith("after")), sum(1 for r in rows if r[2] == "no")))
