#!/bin/bash
# usage: tools/coverage.sh [cases-per-bin]     (supporting evidence, not a check)
# Line coverage of /repo/src under the correspondence generators: builds the harness with nightly's
# -C instrument-coverage into .cache/target-cov, runs every bin's generator (quick-tier sized) plus the corpus, merges
# the profiles and prints, per source file of pelite, the lines no generated case ever executed.  A line that is
# never executed is a line a change can hide in: the list is what the generators are extended from.
cd "$(dirname "$0")/.." || exit 1
V=$(pwd); N=${1:-3000}
export CARGO_NET_OFFLINE=true CARGO_TARGET_DIR=$V/.cache/target-cov RUSTFLAGS="-C instrument-coverage --cfg pelite_verif"
TC=nightly
BIN=$(dirname $(rustup +$TC which rustc))/../lib/rustlib/x86_64-unknown-linux-gnu/bin
# proc-macro crates are instrumented too and write a profile from inside rustc (cwd = the crate): keep those out of /repo
( cd harness && LLVM_PROFILE_FILE=$V/.cache/cov-build-%p.profraw cargo +$TC build --offline --bins 2>&1 | tail -2 ); rm -f $V/.cache/cov-build-*.profraw
P=$V/.cache/cov-prof; rm -rf $P; mkdir -p $P
for b in c14 convert cstrfmt dirs exports headers imports iters pattern resources rich scanner strings versioninfo views walker wrapjson; do
  exe=$CARGO_TARGET_DIR/debug/$b
  [ -x $exe ] || continue
  for k in 0 1 2 3 4 5 6 7; do
    ( LLVM_PROFILE_FILE=$P/$b-$k-%p.profraw PVH_CASE_SECONDS=200 timeout 900 $exe gen ${VERIF_SEED:-0} $((k*N/8)) $((N/8)) > /dev/null 2>&1 ) &
  done
  wait
done
for pid in C01 C02 C03 C04 C05 C06 C07 C08 C09 C10 C11 C12 C13 C14 C15 C16 C18 C19 C20; do
  binname=$(python3 -c "import sys; sys.path.insert(0,'lib'); from props import PROPS; print(PROPS['$pid'].get('bin',''))")
  [ -n "$binname" ] || continue
  for f in corpus/$pid/*.case; do [ -f "$f" ] && LLVM_PROFILE_FILE=$P/corpus-%p.profraw PVH_CASE_SECONDS=200 timeout 300 $CARGO_TARGET_DIR/debug/$binname replay $f > /dev/null 2>&1; done
done
$BIN/llvm-profdata merge -sparse $P/*.profraw -o $P/all.profdata 2>/dev/null
OBJS=""; for b in $CARGO_TARGET_DIR/debug/{c14,convert,cstrfmt,dirs,exports,headers,imports,iters,pattern,resources,rich,scanner,strings,versioninfo,views,walker,wrapjson}; do [ -x $b ] && OBJS="$OBJS -object $b"; done
$BIN/llvm-cov report $OBJS -instr-profile=$P/all.profdata -ignore-filename-regex='(registry|rustc|harness)' 2>/dev/null > $V/.cache/coverage-report.txt
$BIN/llvm-cov show $OBJS -instr-profile=$P/all.profdata -ignore-filename-regex='(registry|rustc|harness)' -show-line-counts-or-regions 2>/dev/null > $V/.cache/coverage-show.txt
grep -E "^/?repo/" $V/.cache/coverage-report.txt | awk '{printf "%-44s lines=%s missed=%s %s\n", $1, $8, $9, $10}' 
