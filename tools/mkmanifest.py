#!/usr/bin/env python3
"""Regenerates MANIFEST.json from lib/props.py (claimed properties) and properties.jsonl."""
import json, os, sys
V = os.path.dirname(os.path.dirname(os.path.abspath(__file__)))
sys.path.insert(0, os.path.join(V, "lib"))
from props import PROPS
props = [json.loads(l) for l in open(os.path.join(V, "properties.jsonl"))]
checks = []
for pid in sorted(PROPS):
    c = PROPS[pid]
    if not c.get("claimed", True):
        continue
    checks.append({
        "property_id": pid,
        "quick_cmd": "./check %s --tier quick" % pid,
        "thorough_cmd": "./check %s --tier thorough" % pid,
        "evidence_file": "/verif/evidence/%s.json" % pid,
        "replay_cmd_template": "./check %s --replay {path}" % pid,
        "engine": "coq-model-correspondence",
        "level_claimed": {"category": c.get("level", "proof"), "text": c["claim"], "design_ref": "DESIGN.md section 7 " + pid},
        "level_note": c["note"],
        "technique": c.get("technique", "Coq proof over hand-written executable model + extracted-model/implementation correspondence + extracted oracle"),
    })
claimed = {c["property_id"] for c in checks}
NA_REASON = getattr(__import__("props"), "NOT_CLAIMED", {})
na = [{"property_id": p["id"], "reason": NA_REASON.get(p["id"], "not yet built (work in progress, DESIGN.md section 12 build order): not claimed until model, correspondence, oracle and first theorem exist")}
      for p in props if p["id"] not in claimed]
m = {
    "version": 1,
    "setup_cmd": "./setup.sh",
    "hooks": {"guard": "--cfg pelite_verif",
              "enable": "RUSTFLAGS='--cfg pelite_verif' (set in harness/.cargo/config.toml); no source hook exists, everything observed is reachable through the public API",
              "baseline_off_cmd": "cd /repo && cargo test --workspace --no-fail-fast --offline",
              "source_commits": [], "add_only": True},
    "engines": [{"name": "coq-model-correspondence", "path": "/verif/check", "serves_properties": sorted(claimed),
                 "kind_free_text": "Coq 8.16.1 proofs over a hand-written executable model (coq/Model, coq/Spec, coq/Proofs, coq/Properties); model extracted to OCaml and compared with the real library on generated inputs by harness/ (Rust) and ocaml/ (drivers); lib/vcheck.py orchestrates"}],
    "checks": checks,
    "not_applicable": na,
    "notes": "Every check rebuilds the Coq closure of its property, re-captures Print Assumptions, rebuilds the harness against /repo's working tree and re-runs the correspondence. Repairs of genuine defects are `fix:` commits in /repo listed in KNOWN_FINDINGS.txt.",
}
json.dump(m, open(os.path.join(V, "MANIFEST.json"), "w"), indent=1)
print("claimed:", sorted(claimed))
