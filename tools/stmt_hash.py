#!/usr/bin/env python3
"""Statement hash of a Coq file: sha256 of its text with comments removed and every proof script replaced by a
placeholder (everything between `Proof.` / `Proof using ...` and the closing `Qed.` / `Defined.`), whitespace collapsed.
Definitions, lemma and theorem STATEMENTS, notations, Requires and Ltac stay in: changing what a name means (for
instance a predicate defined in a Proofs/ or Model/ file that a pinned theorem mentions) changes the hash, re-proving a
lemma differently does not.
usage: stmt_hash.py file...   prints `<hash>  stmt:<path>` per file (paths as given)"""
import hashlib, re, sys

def strip_comments(text):
    out, depth, i = [], 0, 0
    while i < len(text):
        if text.startswith("(*", i):
            depth += 1; i += 2
        elif text.startswith("*)", i) and depth > 0:
            depth -= 1; i += 2
        else:
            if depth == 0:
                out.append(text[i])
            i += 1
    return "".join(out)

VERNAC = re.compile(r"(?:^|\.\s+)(?:Local\s+|Global\s+|#\[[^\]]*\]\s*)*(Definition|Fixpoint|CoFixpoint|Function|Lemma|Theorem|Corollary|Remark|Fact|Proposition|Example|Notation|Infix|Abbreviation|Ltac|Tactic\s+Notation|Set|Unset|Open|Close|Import|Export|Require|From|Inductive|CoInductive|Record|Structure|Class|Instance|Coercion|Arguments|Hint|Module|Section|End|Abort|Let|Program|Equations|Derive|Opaque|Transparent|Strategy|Declare|Existing|Canonical|Context|Variable|Hypothesis|Axiom|Parameter|Goal|Save|Proof)\b")

def stmt_hash(path):
    t = strip_comments(open(path).read())
    # a Defined. proof is part of the meaning of the name (it computes): keep those scripts
    def repl(m):
        # a proof script holds tactics only: a vernacular sentence inside the stripped region (possible after `Abort.`
        # or `Proof term.`, which end a proof before the next Qed.) would be hidden from the hash - keep such a region
        # in the hash verbatim (third audit, F4; lib/vcheck.py also forbids Abort / Proof <term>)
        if VERNAC.search(". " + m.group(1)):
            return m.group(0)
        return m.group(0) if m.group(2) == "Defined." else "Proof. <script> Qed."
    t = re.sub(r"\bProof\b[^.]*\.(.*?)\b(Qed\.|Defined\.)", lambda m: repl(m), t, flags=re.S)
    t = re.sub(r"\s+", " ", t).strip()
    return hashlib.sha256(t.encode()).hexdigest()

if __name__ == "__main__":
    for p in sys.argv[1:]:
        print("%s  stmt:%s" % (stmt_hash(p), p))
