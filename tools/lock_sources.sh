#!/bin/sh
# Records the sha256 of every source file of /repo the hand-written model was validated against (see lib/vcheck.py,
# change-directed escalation).  Run after every fix: commit to /repo once all checks pass on it.
cd "${PELITE_REPO:-/repo}" || exit 1
if [ -n "$(git status --porcelain -- src Cargo.toml)" ]; then echo "refusing: /repo has uncommitted changes under src/"; exit 1; fi
( find src -name '*.rs' | sort; echo Cargo.toml; echo src/proc-macros/Cargo.toml ) | while read f; do [ -f "$f" ] && sha256sum "$f"; done > /verif/sources.lock
wc -l /verif/sources.lock
