#!/usr/bin/env python3
"""usage: seed_meta.py <seed-id> <property> <detected:yes|no|after-strengthening> <what it breaks / needs to manifest>"""
import json, sys, os
sid, prop, det, text = sys.argv[1], sys.argv[2], sys.argv[3], sys.argv[4]
d = "/verif/seeded/" + sid
meta = {
  "id": sid, "breaks_property": prop,
  "needs_to_manifest": text,
  "origin": "written by a fresh sub-agent that saw only the property text and a scratch worktree of /repo (nothing from /verif)",
  "confirmed_by": "tools/confirm_mutant.sh in the scratch worktree: patch applied -> `cargo test --workspace --offline` 73 passed 0 failed (43 tests + 30 doctests); demo.rs as tests/seed_demo.rs fails with the patch (exit 101) and passes without it (exit 0)",
  "checked_with": "tools/try_mutant.sh seeded/%s/patch.diff %s  (git -C /repo apply; ./check %s --tier quick; git -C /repo checkout -- .)" % (sid, prop, prop),
  "detected_by_check": det,
}
json.dump(meta, open(os.path.join(d, "meta.json"), "w"), indent=1)
