#!/bin/bash
# usage (from a `vp run --with-repo` snapshot or from /verif): tools/seed_sweep.sh <tier> <seed>...
# Runs every claimed check (or those named in $ONLY) at each seed and prints one line per check; VIOLATION lines are kept in full.
cd "$(dirname "$0")/.." || exit 1
V=$(pwd)
if [ -n "$VP_RUN_REPO" ]; then
  sed -i "s|path = \"/repo\"|path = \"$VP_RUN_REPO\"|" harness/Cargo.toml
  sed -i "s|/verif/.cache/target|$V/.cache/target|" harness/.cargo/config.toml
  export PELITE_REPO=$VP_RUN_REPO
fi
TIER="$1"; shift
./setup.sh > setup.log 2>&1 || { echo "setup failed"; tail -20 setup.log; exit 1; }
for s in "$@"; do
  for p in ${ONLY:-$(python3 -c "import json; print(' '.join(c['property_id'] for c in json.load(open('MANIFEST.json'))['checks']))")}; do
    VERIF_SEED=$s ./check $p --tier $TIER 2>&1 | grep -E "^(VIOLATION|C[0-9]+ (quick|thorough)|proof problem)" | sed "s/^/seed=$s /" | cut -c1-260
  done
done
echo sweep-done
