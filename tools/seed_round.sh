#!/bin/bash
# usage: seed_round.sh <worktree> <Cnn> <first-new-index>   confirms _out/1.._out/4 of a seed worktree and stores them as seeded/Cnn-<idx>
W="$1"; P="$2"; I="$3"
for k in 1 2 3 4 5 6; do
  [ -f "$W/_out/$k/patch.diff" ] || continue
  /verif/tools/confirm_mutant.sh "$W" $k $P $P-$I
  I=$((I+1))
done
