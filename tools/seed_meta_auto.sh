#!/bin/bash
# usage: seed_meta_auto.sh <det> <seed-id>...   det = yes | after-strengthening | no ; the description is taken from notes.md
DET="$1"; shift
for id in "$@"; do
  p=${id%-*}
  txt=$(python3 - "$id" <<'PY'
import sys,re
t=open('/verif/seeded/%s/notes.md'%sys.argv[1]).read()
t=re.sub(r'[#*`]','',t)
lines=[l.strip() for l in t.split('\n') if l.strip()]
s=' '.join(lines)
s=re.sub(r'\s+',' ',s)
print(s[:420])
PY
)
  python3 /verif/tools/seed_meta.py "$id" "$p" "$DET" "$txt"
done
