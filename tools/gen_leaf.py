#!/usr/bin/env python3
"""Regenerates coq/gen/Leaf.v: a Gallina translation of a FIXED LIST of small pure functions (and of a few
anchored expressions inside larger functions) of /repo/src.  The hand-written models keep their own definitions;
coq/Proofs/Leaf*.v prove, for every generated function, that it equals its model counterpart for all arguments in
their machine ranges, so a change of one of these functions in the source breaks a proof obligation at once.

For every entry of LEAVES three definitions are emitted:
  L_<name>      args : N | bool | tuple | option N   the value, integer arithmetic written over N
  L_<name>_ok   args : bool    true iff no operation of the body panics in a debug build: plain + - * leave the
                               type, a shift count reaches the width, a division by zero, a failed (debug_)assert!
  L_<name>_dom  args : bool    every argument is in the range of its Rust type
Exact semantics: every operand carries its Rust type (literals are typed by unification with the other operand,
the let they initialise, the return type; a literal nothing constrains is i32 as in rustc).
  a + b, a - b, a * b   unbounded N sum/product, truncated N difference; the overflow goes to _ok
  a / b, a % b          N./ , N.modulo; b = 0 goes to _ok
  a << s                (N.shiftl a s) mod 2^w, s >= w goes to _ok (bits shifted out are lost silently, as in Rust)
  a >> s                N.shiftr a s (unsigned only), s >= w goes to _ok
  & | ^ !               N.land N.lor N.lxor, N.lnot a w
  == != < <= > >=       N.eqb / negb N.eqb / N.ltb / N.leb (a > b is b <? a, a >= b is b <=? a)
  && || !               andb orb negb; the right operand's _ok contribution is guarded by the left operand
  e as T                e mod 2^width(T) (bool as T: if e then 1 else 0)
  wrapping_add/sub/mul  mod 2^w;  rotate_left/right: the prelude's rotl / rotr;  min max: N.min N.max
  checked_add/sub/mul   option N;  is_power_of_two: the prelude's is_pow2
  if c { a } else { b } if c then a else b;  tuples, arrays, struct literals (fields in declaration order) and
                        ranges a..b are Coq tuples
Signed types are carried as their two's complement bit pattern and only & | ^ ! << == != and narrowing casts are
accepted on them.  Field reads (self.image.X, optional_header.X, record.x) and constant-index reads (values[0])
become parameters; their types are looked up in the struct definitions of the source (the file itself, then
src/image.rs).  Parameter order: the declared parameters in order; `self` and every struct-typed name expand to
the fields that are read IN DECLARATION ORDER OF THE STRUCT (so that swapping two fields in the body is a visible
change); array/slice parameters expand to the indices read, ascending; struct-typed names that are not parameters
follow, in order of first use.  usize is 64 bits (the framework builds for x86_64 only).

An entry names either a whole function (file, impl type, fn) or an EXPRESSION inside a function by an anchor:
function + a list of regular expressions, each of which must match exactly one (comment-stripped, trimmed) line
of the function's body.  A line `let x = E;` / `let x: T = E;` contributes the binding, `if E {` / `} else if E {`
the condition; a regex with a named group (?P<e>..) contributes the group's text.  All lines but the last must be
lets; the value is the last line's expression.  Names free in the expression are typed from the function's
parameter list, else from the entry's `vars`.
Macro-generated impls (util/align.rs) are expanded by substituting the macro variables in the single rule of the
macro_rules! definition; the invocation `name!(type);` must exist in the file.

The translator FAILS (exit 1, one message per entry on stderr, naming it) when a listed function is missing,
ambiguous, or uses anything outside this subset.  It never guesses.  Leaf.v is still written, WITHOUT the definitions
that failed (a comment `NOT TRANSLATED L_<name>: <reason>` takes their place), so that the agreement proofs of exactly
those functions stop building as well.  Same source -> byte-identical Leaf.v (no dates, no line numbers).
Indexing a slice parameter by a literal (rvas[0]) makes the element a parameter; the bounds check of the index is
not part of the leaf (it belongs to the surrounding loop, which the hand-written model covers).
usage: gen_leaf.py <repo> <outdir>"""
import os, re, sys

# ---------------------------------------------------------------------------------------------- the fixed list
LEAVES = [
    dict(name="strings_is_printable_ascii", file="src/strings.rs", fn="is_printable_ascii",
         model="Strings.is_printable"),
    dict(name="base_relocs_Block_rva_of", file="src/base_relocs.rs", impl="Block", fn="rva_of", model="Relocs.rva_of"),
    dict(name="base_relocs_Block_type_of", file="src/base_relocs.rs", impl="Block", fn="type_of", model="Relocs.type_of"),
    dict(name="base_relocs_encode_type_offset", file="src/base_relocs.rs", fn="encode_type_offset",
         model="Relocs.encode_type_offset"),
    dict(name="base_relocs_build__start", file="src/base_relocs.rs", fn="build",
         anchor=[r"let start = .*;"], model="Relocs.build_gen: start"),
    dict(name="base_relocs_build__end", file="src/base_relocs.rs", fn="build",
         anchor=[r"let start = .*;", r"let end = .*;"], model="Relocs.build_gen: end_"),
    dict(name="rich_structure_RichRecord_decode", file="src/rich_structure.rs", impl="RichRecord", fn="decode",
         model="Rich.rdecode"),
    dict(name="rich_structure_RichRecord_encode", file="src/rich_structure.rs", impl="RichRecord", fn="encode",
         model="Rich.rencode"),
    dict(name="rich_structure_checksum__record_step", file="src/rich_structure.rs", impl="RichStructure", fn="_checksum",
         anchor=[r"let value = .*;", r"csum = (?P<e>.*\bvalue\b.*);"],
         vars={"csum": "u32", "record": "RichRecord"}, model="Rich.rec_step"),
    dict(name="rich_structure_encode__total_len", file="src/rich_structure.rs", impl="RichStructure", fn="encode",
         anchor=[r"let total_size = .*;", r"let total_len = .*;"], vars={"xor_key": "u32", "n": "usize"},
         model="Rich.encode: total_len"),
    dict(name="align_u32_align_to", file="src/util/align.rs", macro=("impl_align_to", {"ty": "u32"}), impl="u32",
         fn="align_to", model="Machine.align_to W32"),
    dict(name="align_u32_aligned_to", file="src/util/align.rs", macro=("impl_align_to", {"ty": "u32"}), impl="u32",
         fn="aligned_to", model="Machine.aligned_to"),
    dict(name="align_usize_align_to", file="src/util/align.rs", macro=("impl_align_to", {"ty": "usize"}), impl="usize",
         fn="align_to", model="Machine.align_to W64"),
    dict(name="align_usize_aligned_to", file="src/util/align.rs", macro=("impl_align_to", {"ty": "usize"}), impl="usize",
         fn="aligned_to", model="Machine.aligned_to"),
    dict(name="exception_UnwindInfo_version", file="src/pe64/exception.rs", env="pe64", impl="UnwindInfo", fn="version",
         model="Dirs.uw_version"),
    dict(name="exception_UnwindInfo_flags", file="src/pe64/exception.rs", env="pe64", impl="UnwindInfo", fn="flags",
         model="Dirs.uw_flags"),
    dict(name="exception_UnwindInfo_frame_register", file="src/pe64/exception.rs", env="pe64", impl="UnwindInfo",
         fn="frame_register", model="Dirs.uw_frame_register"),
    dict(name="exception_UnwindInfo_frame_offset", file="src/pe64/exception.rs", env="pe64", impl="UnwindInfo",
         fn="frame_offset", model="Dirs.uw_frame_offset"),
    dict(name="resources_DirectoryEntry_is_dir", file="src/resources/mod.rs", impl="DirectoryEntry", fn="is_dir",
         model="Resources.e_is_dir"),
    dict(name="resources_DirectoryEntry_name__is_wide", file="src/resources/mod.rs", impl="DirectoryEntry", fn="name",
         anchor=[r"if self\.image\.Name & .* \{"], model="Resources.e_name_g: B31 <=? v"),
    dict(name="resources_DirectoryEntry_name__offset", file="src/resources/mod.rs", impl="DirectoryEntry", fn="name",
         anchor=[r"let offset = .*;"], model="Resources.e_name_g: v - B31"),
    dict(name="resources_DirectoryEntry_entry__offset", file="src/resources/mod.rs", impl="DirectoryEntry", fn="entry",
         anchor=[r"let offset = self\.image\.Offset & .*;"], model="Resources.e_entry_g: v - B31"),
    dict(name="image_IMAGE_IMPORT_DESCRIPTOR_is_null", file="src/image.rs", impl="IMAGE_IMPORT_DESCRIPTOR", fn="is_null",
         model="Imports.desc_is_null"),
]
for _env in ("pe32", "pe64"):
    LEAVES += [
        dict(name=_env + "_imports_import_from_va__by_name", file="src/pe64/imports.rs", env=_env, fn="import_from_va",
             anchor=[r"if va & IMAGE_ORDINAL_FLAG .* \{"], model="Imports.import_from_va: the ordinal flag test"),
        dict(name=_env + "_imports_import_from_va__rva", file="src/pe64/imports.rs", env=_env, fn="import_from_va",
             anchor=[r"let rva = .*;"], model="Imports.import_from_va: va mod W32"),
        dict(name=_env + "_imports_import_from_va__name_rva", file="src/pe64/imports.rs", env=_env, fn="import_from_va",
             anchor=[r"let rva = .*;", r"let name = pe\.derva_c_str\((?P<e>.*)\.ok_or\(Error::Overflow\)\?\)\?;"],
             model="Imports.import_from_va: checked_add W32 rva 2"),
        dict(name=_env + "_imports_import_from_va__ordinal", file="src/pe64/imports.rs", env=_env, fn="import_from_va",
             anchor=[r"Ok\(Import::ByOrdinal \{ ord: (?P<e>.*) \}\)"], model="Imports.import_from_va: va mod W16"),
        dict(name=_env + "_headers_Headers_code_range", file="src/pe64/headers.rs", env=_env, impl="Headers", fn="code_range",
             opaque={"optional_header": ("self.pe.optional_header()", "IMAGE_OPTIONAL_HEADER")}, model="Wrap.op_code_range"),
        dict(name=_env + "_headers_Headers_image_range", file="src/pe64/headers.rs", env=_env, impl="Headers", fn="image_range",
             opaque={"optional_header": ("self.pe.optional_header()", "IMAGE_OPTIONAL_HEADER")}, model="Wrap.op_image_range"),
    ]
LEAVES += [
    dict(name="exports_Exports_is_forwarded", file="src/pe64/exports.rs", env="pe64", impl="Exports", fn="is_forwarded",
         model="Exports.is_forwarded"),
]

# ---------------------------------------------------------------------------------------------- errors
class LeafError(Exception):
    pass

CUR = ["?"]
def die(msg):
    raise LeafError("gen_leaf: L_%s: %s" % (CUR[0], msg))

# ---------------------------------------------------------------------------------------------- tokens
INT_W = {"u8": 8, "u16": 16, "u32": 32, "u64": 64, "usize": 64, "i8": 8, "i16": 16, "i32": 32, "i64": 64, "isize": 64}
SUFFIX = r"(?:u8|u16|u32|u64|u128|usize|i8|i16|i32|i64|i128|isize)"
PUNCT = ["<<=", ">>=", "...", "..=", "::", "->", "=>", "==", "!=", "<=", ">=", "&&", "||", "<<", ">>",
         "+=", "-=", "*=", "/=", "%=", "^=", "&=", "|=", ".."]
ESC = {"n": 10, "r": 13, "t": 9, "\\": 92, "0": 0, "'": 39, '"': 34}

class Tok:
    __slots__ = ("k", "v", "line", "suf")
    def __init__(self, k, v, line, suf=None):
        self.k, self.v, self.line, self.suf = k, v, line, suf
    def __repr__(self):
        return "%s:%r" % (self.k, self.v)
    def text(self):
        if self.k == "int":
            return str(self.v) + (self.suf or "")
        if self.k == "byte":
            return "b'\\x%02x'" % self.v
        if self.k == "life":
            return "'" + self.v
        if self.k == "mvar":
            return "$" + self.v
        return str(self.v)

def tokenize(src, where):
    toks = []
    i, n, line = 0, len(src), 1
    while i < n:
        c = src[i]
        if c == "\n":
            line += 1; i += 1; continue
        if c.isspace():
            i += 1; continue
        if src.startswith("//", i):
            j = src.find("\n", i)
            i = n if j < 0 else j
            continue
        if src.startswith("/*", i):
            depth, j = 1, i + 2
            while j < n and depth:
                if src.startswith("/*", j):
                    depth += 1; j += 2
                elif src.startswith("*/", j):
                    depth -= 1; j += 2
                else:
                    if src[j] == "\n":
                        line += 1
                    j += 1
            i = j
            continue
        m = re.compile(r'b?r(#*)"').match(src, i)
        if m:
            end = src.find('"' + m.group(1), m.end())
            if end < 0:
                die("%s:%d: unterminated raw string" % (where, line))
            body = src[m.end():end]
            toks.append(Tok("str", body, line)); line += body.count("\n")
            i = end + 1 + len(m.group(1))
            continue
        if c == '"' or (c == "b" and i + 1 < n and src[i + 1] == '"'):
            j = i + (2 if c == "b" else 1)
            start = j
            while j < n and src[j] != '"':
                if src[j] == "\\":
                    j += 1
                if src[j] == "\n":
                    line += 1
                j += 1
            toks.append(Tok("str", src[start:j], line))
            i = j + 1
            continue
        if c == "b" and i + 1 < n and src[i + 1] == "'":
            m = re.compile(r"b'(?:\\x([0-9a-fA-F]{2})|\\(.)|([^\\']))'").match(src, i)
            if not m:
                die("%s:%d: malformed byte literal" % (where, line))
            if m.group(1):
                v = int(m.group(1), 16)
            elif m.group(2):
                if m.group(2) not in ESC:
                    die("%s:%d: unknown escape in byte literal" % (where, line))
                v = ESC[m.group(2)]
            else:
                v = ord(m.group(3))
                if v > 127:
                    die("%s:%d: non-ascii byte literal" % (where, line))
            toks.append(Tok("byte", v, line, "u8"))
            i = m.end()
            continue
        if c == "'":
            m = re.compile(r"'(?:\\.[^']*|[^\\'])'").match(src, i)
            if m:
                toks.append(Tok("char", m.group(0), line)); i = m.end(); continue
            m = re.compile(r"'([A-Za-z_]\w*)").match(src, i)
            if not m:
                die("%s:%d: stray quote" % (where, line))
            toks.append(Tok("life", m.group(1), line)); i = m.end(); continue
        if c.isdigit():
            m = re.compile(r"(0x[0-9a-fA-F_]+|0b[01_]+|0o[0-7_]+|[0-9][0-9_]*)(" + SUFFIX + r")?").match(src, i)
            j = m.end()
            if j < n and (src[j].isalnum() or src[j] == "_"):
                die("%s:%d: unsupported numeric literal %r" % (where, line, src[i:j + 6]))
            if j + 1 < n and src[j] == "." and src[j + 1].isdigit():
                die("%s:%d: floating point literal" % (where, line))
            digits = m.group(1).replace("_", "")
            toks.append(Tok("int", int(digits, 0) if digits[:2] in ("0x", "0b", "0o") else int(digits, 10), line, m.group(2)))
            i = j
            continue
        if c.isalpha() or c == "_":
            m = re.compile(r"\w+").match(src, i)
            toks.append(Tok("id", m.group(0), line)); i = m.end(); continue
        if c == "$":
            m = re.compile(r"\$(\w+)").match(src, i)
            if m:
                toks.append(Tok("mvar", m.group(1), line)); i = m.end(); continue
        for p in PUNCT:
            if src.startswith(p, i):
                toks.append(Tok("p", p, line)); i += len(p); break
        else:
            toks.append(Tok("p", c, line)); i += 1
    return toks

def is_p(t, v):
    return t is not None and t.k == "p" and t.v == v
def is_id(t, v=None):
    return t is not None and t.k == "id" and (v is None or t.v == v)

OPEN = {"{": "}", "(": ")", "[": "]"}
def match_close(toks, i, hi=None):
    """index of the bracket closing toks[i]"""
    hi = len(toks) if hi is None else hi
    depth = 0
    for j in range(i, hi):
        t = toks[j]
        if t.k == "p" and t.v in "{([" and len(t.v) == 1:
            depth += 1
        elif t.k == "p" and t.v in "})]" and len(t.v) == 1:
            depth -= 1
            if depth == 0:
                return j
    die("unbalanced brackets from line %d" % toks[i].line)

def skip_angles(toks, i):
    """toks[i] is '<': index after the matching '>'"""
    depth = 0
    j = i
    while j < len(toks):
        t = toks[j]
        if t.k == "p":
            if t.v == "<":
                depth += 1
            elif t.v == ">":
                depth -= 1
            elif t.v == ">>":
                depth -= 2
            elif t.v == "->":
                pass
            elif t.v in ("{", ";"):
                die("unbalanced generics at line %d" % toks[i].line)
        j += 1
        if depth <= 0:
            return j
    die("unbalanced generics at line %d" % toks[i].line)

# ---------------------------------------------------------------------------------------------- items
def find_impls(toks, lo, hi):
    """(type name, body lo, body hi) of every impl block among toks[lo:hi]"""
    out = []
    i = lo
    while i < hi:
        t = toks[i]
        if is_id(t, "impl") and (i == lo or (toks[i - 1].k == "p" and toks[i - 1].v in "};]") or is_id(toks[i - 1], "unsafe")):
            j = i + 1
            if is_p(toks[j], "<"):
                j = skip_angles(toks, j)
            hdr = []
            while j < hi and not is_p(toks[j], "{"):
                hdr.append(toks[j]); j += 1
            if j >= hi:
                break
            for k, h in enumerate(hdr):
                if is_id(h, "where"):
                    hdr = hdr[:k]; break
            for k, h in enumerate(hdr):
                if is_id(h, "for"):
                    hdr = hdr[k + 1:]; break
            depth, name = 0, None
            for h in hdr:
                if h.k == "p" and h.v == "<":
                    depth += 1
                elif h.k == "p" and h.v == ">":
                    depth -= 1
                elif h.k == "p" and h.v == ">>":
                    depth -= 2
                elif depth == 0 and h.k == "id" and h.v not in ("const", "mut", "dyn"):
                    name = h.v
                elif depth == 0 and is_p(h, "*"):
                    name = "*"; break
            end = match_close(toks, j, hi)
            out.append((name, j + 1, end))
            i = end + 1
            continue
        i += 1
    return out

def find_fns(toks, lo, hi, name):
    """indices of `fn name` at bracket depth 0 of toks[lo:hi]"""
    out, depth = [], 0
    for i in range(lo, hi):
        t = toks[i]
        if t.k == "p" and len(t.v) == 1 and t.v in "{([":
            depth += 1
        elif t.k == "p" and len(t.v) == 1 and t.v in "})]":
            depth -= 1
        elif depth == 0 and is_id(t, "fn") and is_id(toks[i + 1], name):
            out.append(i)
    return out

def expand_macro(toks, mname, subst):
    """tokens of the single rule of macro_rules! mname with its variables substituted"""
    hits = [i for i in range(len(toks) - 3) if is_id(toks[i], "macro_rules") and is_p(toks[i + 1], "!") and is_id(toks[i + 2], mname)]
    if len(hits) != 1:
        die("macro_rules! %s: %d definitions found" % (mname, len(hits)))
    i = hits[0] + 3
    if not is_p(toks[i], "{"):
        die("macro_rules! %s: unexpected shape" % mname)
    end = match_close(toks, i)
    j = i + 1
    if not is_p(toks[j], "("):
        die("macro_rules! %s: unexpected matcher" % mname)
    pend = match_close(toks, j)
    pat = toks[j + 1:pend]
    mvars = [t.v for t in pat if t.k == "mvar"]
    if sorted(mvars) != sorted(subst):
        die("macro_rules! %s: matcher variables %s, the table substitutes %s" % (mname, mvars, sorted(subst)))
    if len(pat) != 3 * len(mvars) + max(0, len(mvars) - 1):
        die("macro_rules! %s: matcher is not a plain list of $name:fragment" % mname)
    j = pend + 1
    if not is_p(toks[j], "=>") or not is_p(toks[j + 1], "{"):
        die("macro_rules! %s: unexpected rule" % mname)
    bend = match_close(toks, j + 1)
    k = bend + 1
    if is_p(toks[k], ";"):
        k += 1
    if k != end:
        die("macro_rules! %s has more than one rule" % mname)
    # the invocation must exist
    args = [subst[v] for v in mvars]
    found = False
    for q in range(len(toks) - 4):
        if is_id(toks[q], mname) and is_p(toks[q + 1], "!") and is_p(toks[q + 2], "(") and q != hits[0] + 2:
            close = match_close(toks, q + 2)
            if [t.text() for t in toks[q + 3:close] if not is_p(t, ",")] == args:
                found = True
    if not found:
        die("no invocation %s!(%s) in the file" % (mname, ", ".join(args)))
    out = []
    for t in toks[j + 2:bend]:
        if t.k == "mvar":
            out.append(Tok("id", subst[t.v], t.line))
        else:
            out.append(t)
    return out

# ---------------------------------------------------------------------------------------------- types
# internal types: ("int", name) ("bool",) ("tuple", [t..]) ("option", t) ("struct", name) ("seq", elem, len|None) ("other", text) TV
class TV:
    """type of an integer literal, to be unified"""
    def __init__(self):
        self.ref = None
def prune(t):
    while isinstance(t, TV) and t.ref is not None:
        t = t.ref
    return t
def tstr(t):
    t = prune(t)
    if isinstance(t, TV):
        return "{integer}"
    if t[0] == "int":
        return t[1]
    if t[0] == "bool":
        return "bool"
    if t[0] == "tuple":
        return "(" + ", ".join(tstr(x) for x in t[1]) + ")"
    if t[0] == "option":
        return "Option<%s>" % tstr(t[1])
    if t[0] == "struct":
        return t[1]
    if t[0] == "seq":
        return "[%s%s]" % (tstr(t[1]), "" if t[2] is None else "; %d" % t[2])
    return t[1]
def unify(a, b, what):
    a, b = prune(a), prune(b)
    if a is b:
        return a
    if isinstance(a, TV):
        if isinstance(b, TV) or b[0] == "int":
            a.ref = b; return b
        die("%s: an integer where %s is expected" % (what, tstr(b)))
    if isinstance(b, TV):
        return unify(b, a, what)
    if a[0] != b[0]:
        die("%s: type mismatch %s vs %s" % (what, tstr(a), tstr(b)))
    if a[0] == "int":
        if a[1] != b[1]:
            die("%s: type mismatch %s vs %s" % (what, a[1], b[1]))
        return a
    if a[0] == "bool":
        return a
    if a[0] == "tuple":
        if len(a[1]) != len(b[1]):
            die("%s: arity mismatch %s vs %s" % (what, tstr(a), tstr(b)))
        return ("tuple", [unify(x, y, what) for x, y in zip(a[1], b[1])])
    if a[0] == "option":
        return ("option", unify(a[1], b[1], what))
    if a[0] == "struct":
        if a[1] != b[1]:
            die("%s: type mismatch %s vs %s" % (what, a[1], b[1]))
        return a
    die("%s: cannot unify %s and %s" % (what, tstr(a), tstr(b)))

class P:
    """token cursor"""
    def __init__(self, toks, ctx):
        self.t, self.i, self.ctx = list(toks), 0, ctx
    def peek(self, k=0):
        return self.t[self.i + k] if self.i + k < len(self.t) else None
    def next(self):
        t = self.peek()
        if t is None:
            die("unexpected end of the text")
        self.i += 1
        return t
    def eat(self, v):
        t = self.peek()
        if t is not None and t.k in ("p", "id") and t.v == v:
            self.i += 1
            return True
        return False
    def expect(self, v):
        if not self.eat(v):
            t = self.peek()
            die("expected `%s`, found `%s`%s" % (v, t.text() if t else "end", " (line %d)" % t.line if t else ""))
    def rest_text(self):
        return " ".join(t.text() for t in self.t[self.i:self.i + 8])

def parse_type(p):
    """syntactic type: ("ref", T) is flattened to T"""
    t = p.peek()
    if is_p(t, "&") or is_p(t, "&&"):
        p.next()
        if p.peek() is not None and p.peek().k == "life":
            p.next()
        p.eat("mut")
        return parse_type(p)
    if is_p(t, "["):
        p.next()
        el = parse_type(p)
        ln = None
        if p.eat(";"):
            tk = p.next()
            if tk.k != "int":
                die("array length is not a literal")
            ln = tk.v
        p.expect("]")
        return ("sseq", el, ln)
    if is_p(t, "("):
        p.next()
        items = []
        while not is_p(p.peek(), ")"):
            items.append(parse_type(p))
            if not p.eat(","):
                break
        p.expect(")")
        return ("stuple", items)
    if is_id(t):
        segs = [p.next().v]
        while is_p(p.peek(), "::") and is_id(p.peek(1)):
            p.next(); segs.append(p.next().v)
        args = []
        if is_p(p.peek(), "<"):
            p.next()
            while True:
                q = p.peek()
                if is_p(q, ">"):
                    p.next(); break
                if is_p(q, ">>"):                # split: one '>' closes this list, the other the enclosing one
                    p.t[p.i:p.i + 1] = [Tok("p", ">", q.line), Tok("p", ">", q.line)]
                    continue
                if q is not None and q.k == "life":
                    p.next()
                else:
                    args.append(parse_type(p))
                p.eat(",")
        return ("spath", segs[-1], args)
    die("unsupported type syntax at `%s`" % p.rest_text())

def resolve_type(st, ctx, depth=0):
    if depth > 20:
        die("type alias loop")
    if st[0] == "sseq":
        return ("seq", resolve_type(st[1], ctx, depth + 1), st[2])
    if st[0] == "stuple":
        return ("tuple", [resolve_type(x, ctx, depth + 1) for x in st[1]])
    name, args = st[1], st[2]
    if name in INT_W:
        return ("int", name)
    if name == "bool":
        return ("bool",)
    if name == "Self" and ctx.get("self_type") is not None:
        return ctx["self_type"]
    if name == "Range" and len(args) == 1:
        t = resolve_type(args[0], ctx, depth + 1)
        return ("tuple", [t, t])
    if name == "Option" and len(args) == 1:
        return ("option", resolve_type(args[0], ctx, depth + 1))
    if name in ctx["aliases"]:
        return resolve_type(ctx["aliases"][name], ctx, depth + 1)
    if name in ctx["structs"]:
        return ("struct", name)
    return ("other", name)

# ---------------------------------------------------------------------------------------------- file facts
class Source:
    def __init__(self, repo, path):
        self.path = path
        full = os.path.join(repo, path)
        if not os.path.exists(full):
            die("source file %s does not exist" % path)
        self.text = open(full).read()
        self.toks = tokenize(self.text, path)
        self.lines = self.text.split("\n")

def collect_items(toks):
    """type aliases, integer consts (as token lists) and named-field structs declared at any depth of the file"""
    aliases, consts, structs = {}, {}, {}
    n = len(toks)
    for i, t in enumerate(toks):
        if is_id(t, "type") and is_id(toks[i + 1]) and is_p(toks[i + 2], "="):
            j = i + 3
            while j < n and not is_p(toks[j], ";"):
                j += 1
            aliases[toks[i + 1].v] = toks[i + 3:j]
        elif is_id(t, "const") and i + 2 < n and is_id(toks[i + 1]) and is_p(toks[i + 2], ":"):
            j = i + 3
            while j < n and not is_p(toks[j], "=") and not is_p(toks[j], ";"):
                j += 1
            if is_p(toks[j], "="):
                k = j + 1
                while k < n and not is_p(toks[k], ";"):
                    k += 1
                consts[toks[i + 1].v] = (toks[i + 3:j], toks[j + 1:k])
        elif is_id(t, "struct") and is_id(toks[i + 1]):
            j = i + 2
            if is_p(toks[j], "<"):
                j = skip_angles(toks, j)
            if not is_p(toks[j], "{"):
                continue                      # tuple / unit struct
            end = match_close(toks, j)
            fields, k = [], j + 1
            while k < end:
                if is_p(toks[k], "#"):
                    k = match_close(toks, k + 1) + 1; continue
                if is_id(toks[k], "pub"):
                    k += 1
                    if is_p(toks[k], "("):
                        k = match_close(toks, k) + 1
                    continue
                if is_id(toks[k]) and is_p(toks[k + 1], ":"):
                    fname = toks[k].v
                    q, depth = k + 2, 0
                    while q < end:
                        tq = toks[q]
                        if tq.k == "p" and tq.v in ("<", "(", "["):
                            depth += 1
                        elif tq.k == "p" and tq.v in (">", ")", "]"):
                            depth -= 1
                        elif tq.k == "p" and tq.v == ">>":
                            depth -= 2
                        elif depth == 0 and is_p(tq, ","):
                            break
                        q += 1
                    fields.append((fname, toks[k + 2:q]))
                    k = q + 1
                    continue
                die("struct %s: unexpected token `%s` at line %d" % (toks[i + 1].v, toks[k].text(), toks[k].line))
            structs[toks[i + 1].v] = fields
    return aliases, consts, structs

# ---------------------------------------------------------------------------------------------- expressions
class E:
    def __init__(self, k, **kw):
        self.k = k
        self.ty = None
        self.__dict__.update(kw)

BINPREC = {"*": 11, "/": 11, "%": 11, "+": 10, "-": 10, "<<": 9, ">>": 9, "&": 8, "^": 7, "|": 6,
           "==": 5, "!=": 5, "<": 5, ">": 5, "<=": 5, ">=": 5, "&&": 4, "||": 3}
CMP = ("==", "!=", "<", ">", "<=", ">=")

def parse_expr(p, minp=0, nostruct=False):
    lhs = parse_unary(p, nostruct)
    while True:
        t = p.peek()
        if t is None:
            return lhs
        if is_id(t, "as") and 12 >= minp:
            p.next()
            lhs = E("cast", e=lhs, st=parse_type(p))
            continue
        if t.k == "p" and t.v in BINPREC and BINPREC[t.v] >= minp:
            op = p.next().v
            rhs = parse_expr(p, BINPREC[op] + 1, nostruct)
            if op in CMP:
                q = p.peek()
                if q is not None and q.k == "p" and q.v in CMP:
                    die("chained comparison")
            lhs = E("bin", op=op, a=lhs, b=rhs)
            continue
        if is_p(t, "..") and 2 >= minp:
            p.next()
            rhs = parse_expr(p, 3, nostruct)
            lhs = E("tuple", items=[lhs, rhs], what="range")
            continue
        if t.k == "p" and t.v in ("=", "+=", "-=", "*=", "/=", "%=", "^=", "&=", "|=", "<<=", ">>=", "..=", "?"):
            die("unsupported operator `%s`" % t.v)
        return lhs

def parse_unary(p, nostruct):
    t = p.peek()
    if is_p(t, "!"):
        p.next()
        return E("not", e=parse_unary(p, nostruct))
    if is_p(t, "-"):
        die("unary minus is outside the subset")
    if is_p(t, "*"):
        p.next()
        return parse_unary(p, nostruct)          # references are transparent
    if is_p(t, "&") or is_p(t, "&&"):
        p.next(); p.eat("mut")
        return parse_unary(p, nostruct)
    return parse_postfix(p, parse_primary(p, nostruct), nostruct)

def parse_args(p):
    p.expect("(")
    args = []
    while not is_p(p.peek(), ")"):
        args.append(parse_expr(p))
        if not p.eat(","):
            break
    p.expect(")")
    return args

def parse_postfix(p, e, nostruct):
    while True:
        t = p.peek()
        if is_p(t, "."):
            p.next()
            f = p.next()
            if f.k == "int":
                die("tuple field .%d is outside the subset" % f.v)
            if f.k != "id":
                die("unexpected `%s` after `.`" % f.text())
            if is_p(p.peek(), "::"):
                die("turbofish method call")
            if is_p(p.peek(), "("):
                e = E("mcall", recv=e, name=f.v, args=parse_args(p))
            else:
                e = E("field", e=e, name=f.v)
            continue
        if is_p(t, "["):
            p.next()
            ix = parse_expr(p)
            p.expect("]")
            e = E("index", e=e, ix=ix)
            continue
        if is_p(t, "?"):
            die("the ? operator is outside the subset")
        if is_p(t, "("):
            if e.k != "path":
                die("call of a non-path expression")
            e = E("call", path=e.segs, args=parse_args(p))
            continue
        return e

def parse_block(p):
    """{ stmt* expr } -> E(block)"""
    p.expect("{")
    stmts = []
    while True:
        t = p.peek()
        if t is None:
            die("unterminated block")
        if is_p(t, "}"):
            die("block without a value (line %d)" % t.line)
        if is_id(t, "let"):
            stmts.append(parse_let(p))
            continue
        if is_id(t) and t.v in ("debug_assert", "assert") and is_p(p.peek(1), "!"):
            p.next(); p.next()
            if not is_p(p.peek(), "("):
                die("unexpected assert shape")
            close = match_close(p.t, p.i)
            p.next()
            cond = parse_expr(p)
            if not (is_p(p.peek(), ",") or p.i == close):
                die("unexpected tokens in %s!" % t.v)
            p.i = close + 1
            p.expect(";")
            stmts.append(E("assert", e=cond))
            continue
        if is_id(t) and is_p(p.peek(1), "!"):
            die("macro invocation %s! is outside the subset" % t.v)
        if is_id(t) and t.v in ("return", "while", "for", "loop", "match", "unsafe", "break", "continue"):
            die("`%s` is outside the subset" % t.v)
        e = parse_expr(p)
        if is_p(p.peek(), "}"):
            p.next()
            return E("block", stmts=stmts, e=e)
        die("statement with an effect (line %d): only let, (debug_)assert! and a final value are accepted" % t.line)

def parse_let(p):
    p.expect("let")
    p.eat("mut")
    nm = p.next()
    if nm.k != "id":
        die("let with a pattern")
    st = None
    if p.eat(":"):
        st = parse_type(p)
    p.expect("=")
    opaque = p.ctx.get("opaque", {})
    if nm.v in opaque:
        j = p.i
        depth = 0
        while j < len(p.t) and not (depth == 0 and is_p(p.t[j], ";")):
            if p.t[j].k == "p" and len(p.t[j].v) == 1 and p.t[j].v in "{([":
                depth += 1
            if p.t[j].k == "p" and len(p.t[j].v) == 1 and p.t[j].v in "})]":
                depth -= 1
            j += 1
        got = "".join(t.text() for t in p.t[p.i:j])
        want = re.sub(r"\s+", "", opaque[nm.v][0])
        if got != want:
            die("let %s = %s; expected the opaque initialiser %s" % (nm.v, got, want))
        p.i = j
        p.expect(";")
        return E("olet", name=nm.v, sname=opaque[nm.v][1])
    e = parse_expr(p)
    p.expect(";")
    return E("let", name=nm.v, st=st, e=e)

def parse_primary(p, nostruct):
    t = p.next()
    if t.k in ("int", "byte"):
        return E("lit", v=t.v, suf=t.suf)
    if t.k in ("str", "char", "life", "mvar"):
        die("unsupported literal `%s`" % t.text())
    if is_p(t, "("):
        if is_p(p.peek(), ")"):
            die("unit value")
        e = parse_expr(p)
        if is_p(p.peek(), ","):
            items = [e]
            while p.eat(","):
                if is_p(p.peek(), ")"):
                    break
                items.append(parse_expr(p))
            p.expect(")")
            return E("tuple", items=items, what="tuple")
        p.expect(")")
        return E("paren", e=e)
    if is_p(t, "["):
        items = []
        while not is_p(p.peek(), "]"):
            items.append(parse_expr(p))
            if is_p(p.peek(), ";"):
                die("array repeat expression")
            if not p.eat(","):
                break
        p.expect("]")
        return E("tuple", items=items, what="array")
    if is_p(t, "{"):
        p.i -= 1
        return parse_block(p)
    if is_id(t, "if"):
        c = parse_expr(p, 0, True)
        a = parse_block(p)
        if not p.eat("else"):
            die("if without else")
        if is_id(p.peek(), "if"):
            b = parse_primary(p, nostruct)
        else:
            b = parse_block(p)
        return E("if", c=c, a=a, b=b)
    if t.k == "id":
        if t.v in ("true", "false"):
            return E("blit", v=(t.v == "true"))
        if t.v in ("match", "while", "for", "loop", "unsafe", "return", "move", "break", "continue"):
            die("`%s` is outside the subset" % t.v)
        segs = [t.v]
        while is_p(p.peek(), "::"):
            p.next()
            q = p.next()
            if q.k != "id":
                die("unsupported path (generic arguments?)")
            segs.append(q.v)
        if is_p(p.peek(), "!"):
            q = p.peek(1)
            if is_p(q, "(") or is_p(q, "[") or is_p(q, "{"):
                die("macro invocation %s! is outside the subset" % segs[-1])
        if is_p(p.peek(), "{") and not nostruct and len(segs) == 1 and segs[0][:1].isupper():
            p.next()
            fields = []
            while not is_p(p.peek(), "}"):
                if is_p(p.peek(), ".."):
                    die("struct update syntax")
                fn = p.next()
                if fn.k != "id":
                    die("unexpected token in struct literal")
                if p.eat(":"):
                    fe = parse_expr(p)
                else:
                    fe = E("path", segs=[fn.v])
                fields.append((fn.v, fe))
                if not p.eat(","):
                    break
            p.expect("}")
            return E("slit", name=segs[0], fields=fields)
        return E("path", segs=segs)
    die("unexpected token `%s` (line %d)" % (t.text(), t.line))

# ---------------------------------------------------------------------------------------------- constants
def const_eval(name, ctx, depth=0):
    """(type, value) of a named integer constant"""
    if depth > 20:
        die("constant definition loop at %s" % name)
    if name not in ctx["consts"]:
        return None
    tt, et = ctx["consts"][name]
    ty = resolve_type(parse_type(P(list(tt), ctx)), ctx)
    if ty[0] != "int":
        die("constant %s is not an integer" % name)
    p = P(list(et), ctx)
    e = parse_expr(p)
    if p.peek() is not None:
        die("constant %s: trailing tokens" % name)
    w = INT_W[ty[1]]
    def ev(e, w):
        if e.k == "lit":
            return e.v
        if e.k == "paren":
            return ev(e.e, w)
        if e.k == "path" and len(e.segs) == 1:
            r = const_eval(e.segs[0], ctx, depth + 1)
            if r is None:
                die("constant %s refers to the unknown name %s" % (name, e.segs[0]))
            return r[1]
        if e.k == "not":
            return (2 ** w - 1) ^ ev(e.e, w)
        if e.k == "cast":
            t2 = resolve_type(e.st, ctx)
            if t2[0] != "int":
                die("constant %s: cast to a non-integer" % name)
            return ev(e.e, INT_W[t2[1]]) % 2 ** INT_W[t2[1]]
        if e.k == "bin" and e.op in ("|", "&", "^", "<<", ">>", "+", "-", "*"):
            a, b = ev(e.a, w), ev(e.b, w)
            r = {"|": a | b, "&": a & b, "^": a ^ b, "<<": a << b, ">>": a >> b, "+": a + b, "-": a - b, "*": a * b}[e.op]
            if r < 0 or r >= 2 ** w:
                die("constant %s overflows its type" % name)
            return r
        die("constant %s: unsupported initialiser" % name)
    v = ev(e, w)
    if ty[1][0] == "i":
        die("constant %s is signed" % name)
    if not 0 <= v < 2 ** w:
        die("constant %s out of range" % name)
    return ty, v

# ---------------------------------------------------------------------------------------------- typing
COQ_RESERVED = {"end", "at", "in", "as", "fun", "match", "if", "then", "else", "let", "with", "return", "mod", "fix", "cofix",
                "forall", "exists", "Type", "Set", "Prop", "using", "where", "for", "struct", "is", "of", "by", "do", "type",
                "N", "bool", "true", "false", "Some", "None", "rotl", "rotr", "is_pow2", "negb", "option", "andb", "orb"}
def coq_name(n):
    return n + "_" if n in COQ_RESERVED else n

class Ctx(dict):
    pass

def struct_fields(sname, ctx):
    if sname not in ctx["structs"]:
        die("struct %s not found in %s" % (sname, ", ".join(ctx["struct_files"])))
    return ctx["structs"][sname]

class Leaf:
    """typing state of one leaf: parameters discovered while walking the expression"""
    def __init__(self, ctx):
        self.ctx = ctx
        self.declared = []          # [(rust name, type)] in declaration order (type may be struct / seq / other)
        self.extra_roots = []       # struct-typed names that are not parameters, in order of first use
        self.places = {}            # (root, path...) -> (type, sort key)
        self.used = []              # scalar names read (anchored expressions take only these as parameters)
    def place_param(self, root, path, ty, key):
        k = (root,) + tuple(path)
        if k not in self.places:
            self.places[k] = (ty, key)
        return k

def infer(e, env, lf):
    """annotates e.ty; env: name -> ("val", type) | ("struct", sname) ; returns type"""
    ctx = lf.ctx
    k = e.k
    if k == "lit":
        if e.suf:
            if e.suf not in INT_W:
                die("literal suffix %s" % e.suf)
            e.ty = ("int", e.suf)
        else:
            e.ty = TV()
        return e.ty
    if k == "blit":
        e.ty = ("bool",); return e.ty
    if k == "paren":
        e.ty = infer(e.e, env, lf); return e.ty
    if k in ("path", "field", "index"):
        pl = as_place(e, env, lf)
        if pl is not None:
            e.place, e.ty = pl
            return e.ty
    if k == "path":
        if len(e.segs) == 1 and e.segs[0] in env:
            kind, ty = env[e.segs[0]][:2]
            if kind != "val":
                die("%s is used as a value but is a %s" % (e.segs[0], tstr(ty)))
            e.ty = ty; e.var = e.segs[0]
            if len(env[e.var]) == 2 and e.var not in lf.used:      # not let-bound
                lf.used.append(e.var)
            return ty
        if len(e.segs) == 1:
            r = const_eval(e.segs[0], ctx)
            if r is not None:
                e.ty, e.const = r
                return e.ty
        die("unknown name %s" % "::".join(e.segs))
    if k == "field":
        die("field read .%s of something that is not a known struct" % e.name)
    if k == "index":
        die("index expression outside the subset (only name[literal] on an array/slice parameter)")
    if k == "not":
        t = prune(infer(e.e, env, lf))
        if not isinstance(t, TV) and t[0] not in ("int", "bool"):
            die("`!` on %s" % tstr(t))
        e.ty = t; return t
    if k == "cast":
        infer(e.e, env, lf)
        t2 = resolve_type(e.st, ctx)
        if t2[0] != "int":
            die("cast to %s" % tstr(t2))
        e.ty = t2; return t2
    if k == "bin":
        ta, tb = infer(e.a, env, lf), infer(e.b, env, lf)
        op = e.op
        if op in ("&&", "||"):
            unify(ta, ("bool",), "`%s`" % op); unify(tb, ("bool",), "`%s`" % op)
            e.ty = ("bool",)
        elif op in ("<<", ">>"):
            for t in (ta, tb):
                t = prune(t)
                if not isinstance(t, TV) and t[0] != "int":
                    die("`%s` on %s" % (op, tstr(t)))
            e.ty = ta
        elif op in CMP:
            t = unify(ta, tb, "`%s`" % op)
            t = prune(t)
            if not isinstance(t, TV) and t[0] not in ("int", "bool"):
                die("comparison of %s" % tstr(t))
            if not isinstance(t, TV) and t[0] == "bool" and op not in ("==", "!="):
                die("ordering of bool")
            e.ty = ("bool",)
        else:
            t = prune(unify(ta, tb, "`%s`" % op))
            if not isinstance(t, TV) and t[0] == "bool":
                if op not in ("&", "|", "^"):
                    die("`%s` on bool" % op)
            elif not isinstance(t, TV) and t[0] != "int":
                die("`%s` on %s" % (op, tstr(t)))
            e.ty = t
        return e.ty
    if k == "tuple":
        ts = [infer(x, env, lf) for x in e.items]
        if e.what in ("range", "array"):
            for t in ts[1:]:
                unify(ts[0], t, e.what)
        e.ty = ("tuple", ts); return e.ty
    if k == "slit":
        fields = struct_fields(e.name, ctx)
        given = dict(e.fields)
        if len(given) != len(e.fields) or sorted(given) != sorted(f for f, _ in fields):
            die("struct literal %s does not list exactly the fields of the struct" % e.name)
        ts = []
        e.ordered = []
        for fname, ftoks in fields:
            ft = resolve_type(parse_type(P(list(ftoks), ctx)), ctx)
            t = infer(given[fname], env, lf)
            ts.append(unify(t, ft, "field %s of %s" % (fname, e.name)))
            e.ordered.append(given[fname])
        e.ty = ("tuple", ts); e.sname = e.name
        return e.ty
    if k == "if":
        unify(infer(e.c, env, lf), ("bool",), "if condition")
        e.ty = unify(infer(e.a, env, lf), infer(e.b, env, lf), "if branches")
        return e.ty
    if k == "block":
        env = dict(env)
        for s in e.stmts:
            if s.k == "let":
                t = infer(s.e, env, lf)
                if s.st is not None:
                    t = unify(t, resolve_type(s.st, ctx), "let %s" % s.name)
                s.ty = t
                env[s.name] = ("val", t, "let")
            elif s.k == "olet":
                st = resolve_type(("spath", s.sname, []), ctx)
                if st[0] != "struct":
                    die("opaque let %s: %s is not a struct" % (s.name, s.sname))
                env[s.name] = ("struct", st)
                if s.name not in lf.extra_roots:
                    lf.extra_roots.append(s.name)
            elif s.k == "assert":
                unify(infer(s.e, env, lf), ("bool",), "assert condition")
        e.ty = infer(e.e, env, lf)
        return e.ty
    if k == "mcall":
        return infer_call(e, e.name, [e.recv] + e.args, None, env, lf)
    if k == "call":
        if len(e.path) == 2 and e.path[0] in INT_W:
            return infer_call(e, e.path[1], e.args, ("int", e.path[0]), env, lf)
        die("call of %s is outside the subset" % "::".join(e.path))
    die("unsupported expression kind %s" % k)

def infer_call(e, name, args, recv_ty, env, lf):
    ts = [infer(a, env, lf) for a in args]
    e.fname, e.fargs = name, args
    if not ts:
        die("call of %s without a receiver" % name)
    t0 = ts[0]
    if recv_ty is not None:
        t0 = unify(t0, recv_ty, name)
    p0 = prune(t0)
    if not isinstance(p0, TV) and p0[0] != "int":
        die("method %s on %s is outside the subset" % (name, tstr(p0)))
    if name in ("wrapping_add", "wrapping_sub", "wrapping_mul", "min", "max"):
        if len(ts) != 2:
            die("%s takes one argument" % name)
        e.ty = unify(t0, ts[1], name)
    elif name in ("checked_add", "checked_sub", "checked_mul"):
        if len(ts) != 2:
            die("%s takes one argument" % name)
        e.ty = ("option", unify(t0, ts[1], name))
    elif name in ("rotate_left", "rotate_right"):
        if len(ts) != 2:
            die("%s takes one argument" % name)
        unify(ts[1], ("int", "u32"), name)
        e.ty = t0
    elif name == "is_power_of_two":
        if len(ts) != 1:
            die("is_power_of_two takes no argument")
        e.ty = ("bool",)
    else:
        die("method/function %s is outside the subset" % name)
    return e.ty

def as_place(e, env, lf):
    """a field path rooted at a struct-typed name, or name[literal] on a sequence: (place key, type) or None"""
    ctx = lf.ctx
    path = []
    x = e
    while x.k == "field":
        path.append(x.name); x = x.e
    path.reverse()
    if x.k == "index":
        if path:
            return None
        b = x.e
        if b.k != "path" or len(b.segs) != 1 or b.segs[0] not in env or env[b.segs[0]][0] != "seq":
            return None
        if x.ix.k != "lit" or x.ix.suf not in (None, "usize"):
            die("index of %s is not a literal" % b.segs[0])
        ty = env[b.segs[0]][1]
        if ty[2] is not None and x.ix.v >= ty[2]:
            die("index %d out of the bounds of %s" % (x.ix.v, tstr(ty)))
        el = ty[1]
        if el[0] not in ("int", "bool"):
            die("element type %s of %s" % (tstr(el), b.segs[0]))
        return lf.place_param(b.segs[0], ["%d" % x.ix.v], el, (x.ix.v,)), el
    if x.k != "path" or len(x.segs) != 1:
        return None
    root = x.segs[0]
    if root not in env or env[root][0] != "struct":
        return None
    if not path:
        die("the struct-typed name %s is used as a value" % root)
    st = env[root][1]
    key = []
    for i, f in enumerate(path):
        if st[0] != "struct":
            die("%s.%s: %s is not a struct" % (root, ".".join(path[:i + 1]), tstr(st)))
        fields = struct_fields(st[1], ctx)
        names = [fn for fn, _ in fields]
        if f not in names:
            die("struct %s has no field %s" % (st[1], f))
        key.append(names.index(f))
        st = resolve_type(parse_type(P(list(fields[names.index(f)][1]), ctx)), ctx)
    if st[0] not in ("int", "bool"):
        die("%s.%s has type %s, not an integer" % (root, ".".join(path), tstr(st)))
    if root != "self" and root not in [d[0] for d in lf.declared] and root not in lf.extra_roots:
        lf.extra_roots.append(root)
    return lf.place_param(root, path, st, tuple(key)), st

def default_types(e):
    """every literal nothing constrained is i32; walks the whole tree"""
    def fix(t):
        t = prune(t)
        if isinstance(t, TV):
            t.ref = ("int", "i32")
            return ("int", "i32")
        if t[0] == "tuple":
            return ("tuple", [fix(x) for x in t[1]])
        if t[0] == "option":
            return ("option", fix(t[1]))
        return t
    if e.ty is not None:
        e.ty = fix(e.ty)
    for v in list(e.__dict__.values()):
        if isinstance(v, E):
            default_types(v)
        elif isinstance(v, list):
            for x in v:
                if isinstance(x, E):
                    default_types(x)
                elif isinstance(x, tuple):
                    for y in x:
                        if isinstance(y, E):
                            default_types(y)

# ---------------------------------------------------------------------------------------------- emission
def pow2(w):
    return str(2 ** w)
def conj(a, b):
    if a is None:
        return b
    if b is None:
        return a
    return "%s && %s" % (a, b)
def signed(t):
    return t[1][0] == "i"
def width(t):
    return INT_W[t[1]]

def emit(e, lf):
    """(coq term, ok term or None when nothing can panic)"""
    k = e.k
    if k == "lit":
        t = e.ty
        lim = 2 ** (width(t) - 1) if signed(t) else 2 ** width(t)
        if e.v >= lim:
            die("literal %d does not fit %s" % (e.v, t[1]))
        return str(e.v), None
    if k == "blit":
        return ("true" if e.v else "false"), None
    if k == "paren":
        return emit(e.e, lf)
    if hasattr(e, "place"):
        return lf.pname[e.place], None
    if k == "path":
        if hasattr(e, "const"):
            return str(e.const), None
        return coq_name(e.var), None
    if k == "not":
        v, ok = emit(e.e, lf)
        if e.ty[0] == "bool":
            return "negb %s" % atom(v), ok
        return "N.lnot %s %d" % (atom(v), width(e.ty)), ok
    if k == "cast":
        v, ok = emit(e.e, lf)
        ts, td = e.e.ty, e.ty
        if ts[0] == "bool":
            return "(if %s then 1 else 0)" % v, ok
        if ts[0] != "int":
            die("cast from %s" % tstr(ts))
        if signed(ts) and width(td) > width(ts):
            die("sign-extending cast %s as %s is outside the subset" % (ts[1], td[1]))
        return "%s mod %s" % (atom(v), pow2(width(td))), ok
    if k == "bin":
        return emit_bin(e, lf)
    if k == "tuple":
        parts = [emit(x, lf) for x in e.items]
        ok = None
        for _, o in parts:
            ok = conj(ok, atom_ok(o))
        return "(" + ", ".join(v for v, _ in parts) + ")", ok
    if k == "slit":
        parts = [emit(x, lf) for x in e.ordered]
        ok = None
        for _, o in parts:
            ok = conj(ok, atom_ok(o))
        return "(" + ", ".join(v for v, _ in parts) + ")", ok
    if k == "if":
        c, okc = emit(e.c, lf)
        a, oka = emit(e.a, lf)
        b, okb = emit(e.b, lf)
        v = "(if %s then %s else %s)" % (c, a, b)
        if oka is None and okb is None:
            return v, okc
        return v, conj(atom_ok(okc), "(if %s then %s else %s)" % (c, oka or "true", okb or "true"))
    if k == "block":
        return emit_block(e, lf)
    if k in ("mcall", "call"):
        return emit_call(e, lf)
    die("cannot emit %s" % k)

def atom(v):
    """parenthesise unless atomic"""
    if re.fullmatch(r"[\w.']+", v) or (v.startswith("(") and match_paren(v) == len(v) - 1):
        return v
    return "(" + v + ")"
def match_paren(s):
    d = 0
    for i, c in enumerate(s):
        if c == "(":
            d += 1
        elif c == ")":
            d -= 1
            if d == 0:
                return i
    return -1
def atom_ok(o):
    return None if o is None else atom(o)

def emit_bin(e, lf):
    op = e.op
    a, oka = emit(e.a, lf)
    b, okb = emit(e.b, lf)
    A, B = atom(a), atom(b)
    if op in ("&&", "||"):
        v = "%s %s %s" % (A, op, B)
        if okb is None:
            return v, oka
        guard = "(if %s then %s else true)" % (a, okb) if op == "&&" else "(if %s then true else %s)" % (a, okb)
        return v, conj(atom_ok(oka), guard)
    ok = conj(atom_ok(oka), atom_ok(okb))
    ta = e.a.ty
    if op in CMP:
        if ta[0] == "bool":
            v = "Bool.eqb %s %s" % (A, B)
            return (v if op == "==" else "negb (%s)" % v), ok
        if op == "==":
            return "%s =? %s" % (A, B), ok
        if op == "!=":
            return "negb (%s =? %s)" % (A, B), ok
        if signed(ta):
            die("ordering comparison on the signed type %s is outside the subset" % ta[1])
        return {"<": "%s <? %s" % (A, B), "<=": "%s <=? %s" % (A, B), ">": "%s <? %s" % (B, A), ">=": "%s <=? %s" % (B, A)}[op], ok
    t = e.ty
    if t[0] == "bool":
        return {"&": "%s && %s", "|": "%s || %s", "^": "xorb %s %s"}[op] % (A, B), ok
    w = width(t)
    if op == "&":
        return "N.land %s %s" % (A, B), ok
    if op == "|":
        return "N.lor %s %s" % (A, B), ok
    if op == "^":
        return "N.lxor %s %s" % (A, B), ok
    if op in ("<<", ">>"):
        tb = e.b.ty
        lit = static_value(e.b)
        if lit is None and signed(tb):
            die("shift by a signed non-literal amount")
        if lit is not None:
            if lit >= w:
                die("shift by the constant %d overflows %s" % (lit, t[1]))
        else:
            ok = conj(ok, "(%s <? %d)" % (b, w))
        if op == "<<":
            return "N.shiftl %s %s mod %s" % (A, B, pow2(w)), ok
        if signed(t):
            die("`>>` on the signed type %s is outside the subset" % t[1])
        return "N.shiftr %s %s" % (A, B), ok
    if signed(t):
        die("`%s` on the signed type %s is outside the subset (only & | ^ ! << == != are accepted)" % (op, t[1]))
    if op == "+":
        return "%s + %s" % (A, B), conj(ok, "(%s + %s <? %s)" % (A, B, pow2(w)))
    if op == "-":
        return "%s - %s" % (A, B), conj(ok, "(%s <=? %s)" % (B, A))
    if op == "*":
        return "%s * %s" % (A, B), conj(ok, "(%s * %s <? %s)" % (A, B, pow2(w)))
    if op in ("/", "%"):
        lit = static_value(e.b)
        if lit is not None:
            if lit == 0:
                die("division by the constant zero")
        else:
            ok = conj(ok, "negb (%s =? 0)" % B)
        return ("%s / %s" if op == "/" else "%s mod %s") % (A, B), ok
    die("operator %s" % op)

def static_value(e):
    if e.k == "lit":
        return e.v
    if e.k == "paren":
        return static_value(e.e)
    if e.k == "path" and hasattr(e, "const"):
        return e.const
    return None

def emit_block(e, lf):
    lines_v, ok = [], None
    pending = []       # let prefixes for the ok term
    oks = []
    for s in e.stmts:
        if s.k == "let":
            v, o = emit(s.e, lf)
            if o is not None:
                oks.append(("".join(pending), o))
            pre = "let %s := %s in\n  " % (coq_name(s.name), v)
            lines_v.append(pre); pending.append(pre)
        elif s.k == "assert":
            v, o = emit(s.e, lf)
            oks.append(("".join(pending), conj(atom_ok(o), atom(v))))
        elif s.k == "olet":
            pass
    v, o = emit(e.e, lf)
    if o is not None:
        oks.append(("".join(pending), o))
    val = "".join(lines_v) + v
    if lines_v:
        val = "(" + val + ")"
    okt = None
    for pre, o in oks:
        okt = conj(okt, "(" + pre + o + ")" if pre else atom(o))
    return val, okt

def emit_call(e, lf):
    name, args = e.fname, e.fargs
    parts = [emit(a, lf) for a in args]
    ok = None
    for _, o in parts:
        ok = conj(ok, atom_ok(o))
    vs = [atom(v) for v, _ in parts]
    t = args[0].ty
    if name == "is_power_of_two":
        if signed(t):
            die("is_power_of_two on a signed type")
        return "is_pow2 %s" % vs[0], ok
    if signed(t):
        die("%s on the signed type %s is outside the subset" % (name, t[1]))
    w = width(t)
    W = pow2(w)
    if name == "wrapping_add":
        return "(%s + %s) mod %s" % (vs[0], vs[1], W), ok
    if name == "wrapping_sub":
        return "(%s + (%s - %s mod %s)) mod %s" % (vs[0], W, vs[1], W, W), ok
    if name == "wrapping_mul":
        return "(%s * %s) mod %s" % (vs[0], vs[1], W), ok
    if name == "min":
        return "N.min %s %s" % (vs[0], vs[1]), ok
    if name == "max":
        return "N.max %s %s" % (vs[0], vs[1]), ok
    if name == "rotate_left":
        return "rotl %d %s %s" % (w, vs[0], vs[1]), ok
    if name == "rotate_right":
        return "rotr %d %s %s" % (w, vs[0], vs[1]), ok
    if name == "checked_add":
        return "(if %s + %s <? %s then Some (%s + %s) else None)" % (vs[0], vs[1], W, vs[0], vs[1]), ok
    if name == "checked_sub":
        return "(if %s <=? %s then Some (%s - %s) else None)" % (vs[1], vs[0], vs[0], vs[1]), ok
    if name == "checked_mul":
        return "(if %s * %s <? %s then Some (%s * %s) else None)" % (vs[0], vs[1], W, vs[0], vs[1]), ok
    die("cannot emit %s" % name)

def coq_type(t):
    if t[0] == "int":
        return "N"
    if t[0] == "bool":
        return "bool"
    if t[0] == "tuple":
        return "(" + " * ".join(coq_type(x) for x in t[1]) + ")%type"
    if t[0] == "option":
        return "option " + coq_type(t[1])
    die("result type %s" % tstr(t))

def strip_outer(v):
    while v.startswith("(") and match_paren(v) == len(v) - 1 and not is_tuple_text(v):
        v = v[1:-1]
    return v
def is_tuple_text(v):
    d = 0
    for c in v[1:-1]:
        if c == "(":
            d += 1
        elif c == ")":
            d -= 1
        elif c == "," and d == 0:
            return True
    return False

# ---------------------------------------------------------------------------------------------- one leaf
SOURCES = {}
def source(repo, path):
    if path not in SOURCES:
        SOURCES[path] = Source(repo, path)
    return SOURCES[path]

def build_ctx(repo, leaf):
    files = [leaf["file"], "src/image.rs"]
    if leaf.get("env"):
        files.append("src/%s/image.rs" % leaf["env"])
    aliases, consts, structs = {}, {}, {}
    for f in reversed(files):               # earlier files win
        a, c, s = collect_items(source(repo, f).toks)
        aliases.update(a); consts.update(c); structs.update(s)
    ctx = Ctx(aliases={}, consts=consts, structs=structs, struct_files=files, opaque=leaf.get("opaque", {}), self_type=None)
    for nm, tk in aliases.items():
        try:
            ctx["aliases"][nm] = parse_type(P([Tok(t.k, t.v, t.line, t.suf) for t in tk], ctx))
        except LeafError:
            pass                              # an alias outside the type subset is simply not available
    return ctx

def locate_fn(repo, leaf):
    """(tokens, index of `fn`, source, self struct name or int type)"""
    src = source(repo, leaf["file"])
    toks = src.toks
    if leaf.get("macro"):
        mname, subst = leaf["macro"]
        toks = expand_macro(toks, mname, subst)
    if leaf.get("impl"):
        blocks = [(lo, hi) for nm, lo, hi in find_impls(toks, 0, len(toks)) if nm == leaf["impl"]]
        if not blocks:
            die("no impl block for %s in %s" % (leaf["impl"], leaf["file"]))
        hits = []
        for lo, hi in blocks:
            hits += find_fns(toks, lo, hi, leaf["fn"])
        where = "impl %s" % leaf["impl"]
    else:
        hits = find_fns(toks, 0, len(toks), leaf["fn"])
        where = "the top level"
    if len(hits) != 1:
        die("function %s: %d definitions found at %s of %s" % (leaf["fn"], len(hits), where, leaf["file"]))
    return toks, hits[0], src

def parse_signature(toks, i, ctx, leaf):
    """-> (params [(name, type)], has_self, ret type or None, body lo, body hi)"""
    j = i + 2
    if is_p(toks[j], "<"):
        j = skip_angles(toks, j)
    if not is_p(toks[j], "("):
        die("function %s: unexpected signature" % leaf["fn"])
    close = match_close(toks, j)
    params, has_self = [], False
    k = j + 1
    while k < close:
        # one parameter up to the next top-level comma
        q, depth = k, 0
        while q < close:
            t = toks[q]
            if t.k == "p" and t.v in ("<", "(", "["):
                depth += 1
            elif t.k == "p" and t.v in (">", ")", "]"):
                depth -= 1
            elif t.k == "p" and t.v == ">>":
                depth -= 2
            elif depth == 0 and is_p(t, ","):
                break
            q += 1
        seg = toks[k:q]
        k = q + 1
        if not seg:
            continue
        names = [t for t in seg if not (t.k == "life" or is_p(t, "&") or is_id(t, "mut"))]
        if len(names) == 1 and is_id(names[0], "self"):
            has_self = True
            continue
        # [&] [mut] name : type
        s = 0
        if is_p(seg[s], "&"):
            s += 1
        if is_id(seg[s], "mut"):
            s += 1
        if not (is_id(seg[s]) and is_p(seg[s + 1], ":")):
            die("function %s: parameter pattern `%s` is outside the subset" % (leaf["fn"], " ".join(t.text() for t in seg)))
        nm = seg[s].v
        try:
            ty = resolve_type(parse_type(P([Tok(t.k, t.v, t.line, t.suf) for t in seg[s + 2:]], ctx)), ctx)
        except LeafError:
            ty = ("other", " ".join(t.text() for t in seg[s + 2:]))
        params.append((nm, ty))
    j = close + 1
    ret = None
    if is_p(toks[j], "->"):
        q = j + 1
        while not is_p(toks[q], "{") and not is_id(toks[q], "where"):
            q += 1
        rt = [Tok(t.k, t.v, t.line, t.suf) for t in toks[j + 1:q]]
        try:
            ret = resolve_type(parse_type(P(rt, ctx)), ctx)
        except LeafError:
            ret = ("other", " ".join(t.text() for t in rt))
        j = q
    while not is_p(toks[j], "{"):
        j += 1
    return params, has_self, ret, j, match_close(toks, j)

def self_struct(leaf, ctx):
    nm = leaf.get("impl")
    if nm is None:
        return None
    if nm in INT_W:
        return ("int", nm)
    if nm in ctx["structs"]:
        return ("struct", nm)
    return None

def ret_to_tuple(ret, ctx):
    """a struct return type is the tuple of its fields"""
    if ret is not None and ret[0] == "struct":
        fs = struct_fields(ret[1], ctx)
        return ("tuple", [resolve_type(parse_type(P(list(ft), ctx)), ctx) for _, ft in fs])
    if ret is not None and ret[0] == "seq" and ret[2] is not None:
        return ("tuple", [ret[1]] * ret[2])
    return ret

def translate(repo, leaf):
    CUR[0] = leaf["name"]
    ctx = build_ctx(repo, leaf)
    toks, fi, src = locate_fn(repo, leaf)
    ctx["self_type"] = self_struct(leaf, ctx)
    params, has_self, ret, blo, bhi = parse_signature(toks, fi, ctx, leaf)
    lf = Leaf(ctx)
    env = {}
    if has_self:
        st = ctx["self_type"]
        if st is None:
            die("the type of self (%s) is not a struct of %s" % (leaf.get("impl"), leaf["file"]))
        lf.declared.append(("self", st))
    for nm, ty in params:
        lf.declared.append((nm, ty))
    for nm, ty in lf.declared:
        if ty[0] in ("int", "bool"):
            env[nm] = ("val", ty)
        elif ty[0] == "struct":
            env[nm] = ("struct", ty)
        elif ty[0] == "seq":
            env[nm] = ("seq", ty)
        # parameters of any other type are not nameable in the subset: a use fails as an unknown name
    if leaf.get("anchor"):
        for nm, tys in sorted(leaf.get("vars", {}).items()):
            if nm in env:
                continue                          # the function's own parameter list wins
            ty = resolve_type(parse_type(P(tokenize(tys, "vars"), ctx)), ctx)
            if ty[0] in ("int", "bool"):
                env[nm] = ("val", ty)
            elif ty[0] == "struct":
                env[nm] = ("struct", ty)
            else:
                die("vars: %s has the unsupported type %s" % (nm, tys))
        expr, sig = anchored_block(src, toks, blo, bhi, leaf, ctx)
        want = None
    else:
        p = P(toks[blo:bhi + 1], ctx)
        expr = parse_block(p)
        if p.peek() is not None:
            die("trailing tokens after the body")
        want = ret_to_tuple(ret, ctx)
        if want is None:
            die("function %s returns nothing" % leaf["fn"])
        if want[0] == "other":
            die("function %s: return type %s is outside the subset" % (leaf["fn"], want[1]))
        sig = " ".join(t.text() for t in toks[fi:blo])
    t = infer(expr, env, lf)
    if want is not None:
        unify(t, want, "the returned value")
    default_types(expr)
    # parameters of the emitted definition
    plist = []                                    # [place, short name, type, rust description]
    def add(place, ty, desc):
        short = place[-1] if not place[-1].isdigit() else "%s_%s" % (place[0], place[-1])
        plist.append([place, short, ty, desc])
    declared = list(lf.declared)
    if leaf.get("anchor"):
        # an anchored expression takes the names it reads: the function's parameters in declaration order, then `vars` by name
        declared = [d for d in declared if d[1][0] not in ("int", "bool") or d[0] in lf.used]
        declared += [(nm, env[nm][1]) for nm in sorted(leaf.get("vars", {})) if nm in lf.used and nm not in dict(declared)]
    roots = [d[0] for d in declared] + [r for r in lf.extra_roots if r not in dict(declared)]
    # in the `_args` lists a parameter of the function is named by its POSITION (arg1, arg2, .. after self): renaming a
    # parameter is harmless and must not change the list (fourth audit, H2); `self` and the `vars` of an anchored
    # expression (which the anchor regexes spell out anyway) keep their names
    posname = {}
    k = 0
    for nm, _ty in lf.declared:
        if nm == "self":
            continue
        k += 1
        posname[nm] = "arg%d" % k
    for root in roots:
        decl = dict(declared).get(root)
        if decl is not None and decl[0] in ("int", "bool"):
            plist.append([(root,), root, decl, posname.get(root, root)])
            continue
        mine = sorted((v[1], k, v[0]) for k, v in lf.places.items() if k[0] == root)
        for _, place, ty in mine:
            desc = posname.get(place[0], place[0]) + "".join("[%s]" % x if x.isdigit() else "." + x for x in place[1:])
            add(place, ty, desc)
    for pl in lf.places:
        if pl[0] not in roots:
            die("internal: place %s has no root" % (pl,))
    shorts = [p[1] for p in plist]
    for p in plist:
        if shorts.count(p[1]) > 1:
            p[1] = "_".join(p[0])
    names = [coq_name(p[1]) for p in plist]
    if len(set(names)) != len(names):
        die("parameter names clash: %s" % names)
    lf.pname = {}
    for p, nm in zip(plist, names):
        if len(p[0]) > 1:
            lf.pname[p[0]] = nm
    val, ok = emit(expr, lf)
    rty = prune(expr.ty)
    binders = " ".join("(%s : %s)" % (nm, "bool" if p[2][0] == "bool" else "N") for p, nm in zip(plist, names))
    dom = " && ".join("(%s <? %s)" % (nm, pow2(width(p[2]))) for p, nm in zip(plist, names) if p[2][0] == "int") or "true"
    L = "L_" + leaf["name"]
    out = []
    out.append("(* %s  %s" % (leaf["file"], sig.replace("(*", "( *").replace("*)", "* )")))
    if leaf.get("env"):
        out.append("   compiled as %s (type aliases and constants of src/%s/image.rs)" % (leaf["env"], leaf["env"]))
    out.append("   arguments: %s" % (", ".join("%s = %s : %s" % (nm, p[3], tstr(p[2])) for p, nm in zip(plist, names)) or "none"))
    out.append("   result: %s;  model counterpart: %s *)" % (tstr(rty), leaf.get("model", "-")))
    sp = " " if binders else ""
    out.append("Definition %s%s%s : %s :=\n  %s." % (L, sp, binders, coq_type(rty), strip_outer(val)))
    out.append("Definition %s_ok%s%s : bool :=\n  %s." % (L, sp, binders, strip_outer(ok) if ok else "true"))
    out.append("Definition %s_dom%s%s : bool :=\n  %s." % (L, sp, binders, dom))
    # what each binder stands for in the source (third audit, F2): a function that starts reading another field or
    # index of the same width leaves the body alpha-equivalent; this list changes, and Proofs/Leaf*.v pin it
    out.append("Definition %s_args : list string :=\n  [%s]." % (L, "; ".join('"%s : %s"%%string' % (p[3], tstr(p[2])) for p in plist)))
    return "\n".join(out) + "\n"

def anchored_block(src, toks, blo, bhi, leaf, ctx):
    """builds the block `{ let ..; let ..; value }` from the anchored lines of the function body"""
    if leaf.get("macro"):
        die("anchors inside macro bodies are not supported")
    body = []
    first, last = toks[blo].line, toks[bhi].line
    # block comments are removed first (newlines kept), so that a commented-out copy of an anchored line cannot stand
    # in for the live one (third audit, F3)
    chunk = "\n".join(src.lines[first - 1:last])
    chunk = re.sub(r"/\*.*?\*/", lambda m: re.sub(r"[^\n]", " ", m.group(0)), chunk, flags=re.S)
    for k, line in enumerate(chunk.split("\n")):
        body.append((first + k, re.sub(r"//.*$", "", line).strip()))
    pieces = []
    last_line = 0
    for n, rx in enumerate(leaf["anchor"]):
        hits = [(ln, text) for ln, text in body if re.fullmatch(rx, text)]
        if len(hits) != 1:
            die("anchor %r matches %d lines of fn %s (exactly one is required)" % (rx, len(hits), leaf["fn"]))
        ln, text = hits[0]
        m = re.fullmatch(rx, text)
        if ln <= last_line:
            die("anchor %r does not follow the previous anchor" % rx)
        last_line = ln
        final = n == len(leaf["anchor"]) - 1
        mlet = re.fullmatch(r"let (?:mut )?(\w+)(?:\s*:[^=]+)? = (.*);", text)
        mif = re.fullmatch(r"(?:\} else )?if (.*) \{", text)
        if "e" in m.groupdict():
            let_stmt = "let %s = %s;" % (mlet.group(1), m.group("e")) if mlet else None
            value = m.group("e")
        elif mlet:
            let_stmt, value = text, None                            # the let verbatim (keeps a type annotation)
        elif mif:
            let_stmt, value = None, mif.group(1)
        else:
            die("anchor %r: the line `%s` is neither a let nor an if, and the regex has no group (?P<e>..)" % (rx, text))
        if final:
            if value is None:
                pieces += [let_stmt, mlet.group(1)]
            else:
                pieces.append(value)
        else:
            if let_stmt is None:
                die("anchor %r: every anchored line but the last must be a let" % rx)
            pieces.append(let_stmt)
    # a name the anchored text reads or binds must not be (re)bound or assigned on any other line between the function
    # head and the last anchor: the anchored expression would no longer mean what the function computes
    anchored_lines = set()
    for rx in leaf["anchor"]:
        anchored_lines.update(ln for ln, t in body if re.fullmatch(rx, t))
    idents = set(re.findall(r"[A-Za-z_]\w*", " ".join(pieces))) - {"let", "mut", "as", "if", "else", "self", "true", "false", "u8", "u16", "u32", "u64", "usize", "i8", "i16", "i32", "i64", "isize"}
    # (names listed in `vars` are inputs by declaration: their one binding outside the anchors is what the binder stands
    # for, and the differential harness is what ties it; the check covers the function's own parameters and every other name)
    idents -= set(leaf.get("vars", {}))
    for ln, t in body:
        if ln in anchored_lines or ln > last_line:
            continue
        for nm in idents:
            if re.search(r"\blet\s+(?:mut\s+)?%s\b" % re.escape(nm), t) or re.search(r"(?<![.\w])%s\s*(?:[-+*/%%&|^]|<<|>>)?=(?!=)" % re.escape(nm), t):
                die("fn %s: `%s` is bound or assigned on line %d (`%s`), outside the anchored lines - the anchored expression no longer stands for what the function computes" % (leaf["fn"], nm, ln, t[:80]))
    text = "{ " + " ".join(pieces) + " }"
    p = P(tokenize(text, leaf["file"]), ctx)
    expr = parse_block(p)
    if p.peek() is not None:
        die("trailing tokens in the anchored expression")
    return expr, "fn %s: %s" % (leaf["fn"], text[2:-2].strip())

PRELUDE = """(* GENERATED by tools/gen_leaf.py from /repo/src on every run - do not edit.
   One Gallina definition per listed leaf function of the source, with the exact Rust semantics of every operator
   (see the header of tools/gen_leaf.py); L_f is the value, L_f_ok is true iff the body does not panic in a debug
   build, L_f_dom is true iff every argument is in the range of its Rust type.  Proofs/Leaf*.v prove each equal to
   its hand-written model counterpart. *)
From Coq Require Import NArith Bool List String.
Import ListNotations.
Open Scope N_scope.
Open Scope bool_scope.

(* u{w}::rotate_left / rotate_right by n (the count is taken modulo the width) *)
Definition rotl (w x n : N) : N := N.lor (N.shiftl x (n mod w) mod 2 ^ w) (N.shiftr x (w - n mod w)).
Definition rotr (w x n : N) : N := N.lor (N.shiftr x (n mod w)) (N.shiftl x (w - n mod w) mod 2 ^ w).
(* u{w}::is_power_of_two *)
Definition is_pow2 (x : N) : bool := x =? 2 ^ N.log2 x.
"""

def main():
    if len(sys.argv) != 3:
        sys.exit("usage: gen_leaf.py <repo> <outdir>")
    repo, outdir = sys.argv[1], sys.argv[2]
    names = [l["name"] for l in LEAVES]
    if len(set(names)) != len(names):
        sys.exit("gen_leaf: duplicate names in the table")
    parts = [PRELUDE]
    errors = []
    for leaf in LEAVES:
        try:
            parts.append(translate(repo, leaf))
            continue
        except LeafError as ex:
            errors.append(str(ex))
        except (IndexError, KeyError, AttributeError, TypeError, ValueError) as ex:   # a malformed source must not pass silently
            errors.append("gen_leaf: L_%s: internal failure %s: %r" % (leaf["name"], type(ex).__name__, ex))
        # the definition is left out, so that the proofs about it fail to build as well
        parts.append("(* NOT TRANSLATED L_%s: %s *)\n" % (leaf["name"], errors[-1].replace("(*", "( *").replace("*)", "* )").replace('"', "'")))
    text = "\n".join(parts)
    os.makedirs(outdir, exist_ok=True)
    path = os.path.join(outdir, "Leaf.v")
    if not os.path.exists(path) or open(path).read() != text:
        open(path, "w").write(text)
    if errors:
        sys.stderr.write("\n".join(errors) + "\n")
        sys.exit(1)

if __name__ == "__main__":
    main()
