#!/bin/sh
# usage: try_mutant.sh <patch.diff (absolute path)> <Cnn> [<Cnn>...]   applies the patch to /repo, runs the quick checks, reverts.
# Evidence files describe the UNCHANGED tree: they are saved before and restored after the mutated run.
P="$1"; shift
cd /repo || exit 2
if ! git apply --check "$P" 2>/dev/null; then echo "PATCH DOES NOT APPLY: $P"; exit 2; fi
SAVE=$(mktemp -d /verif/.cache/evidence-save.XXXXXX)
cp /verif/evidence/*.json "$SAVE"/ 2>/dev/null
git apply "$P"
for c in "$@"; do
  ( cd /verif && ./check "$c" --tier quick 2>&1 | grep -E "^(VIOLATION|KNOWN|C[0-9]+ quick|proof problem)" | cut -c1-300 )
done
git -C /repo checkout -- .
cp "$SAVE"/*.json /verif/evidence/ 2>/dev/null; rm -rf "$SAVE"
rm -f /verif/replays/*.case.tmp
