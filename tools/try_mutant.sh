#!/bin/sh
# usage: try_mutant.sh <patch.diff> <Cnn> [<Cnn>...]   applies the patch to /repo, runs the quick checks, reverts
P="$1"; shift
cd /repo || exit 2
if ! git apply --check "$P" 2>/dev/null; then echo "PATCH DOES NOT APPLY: $P"; exit 2; fi
git apply "$P"
for c in "$@"; do
  ( cd /verif && ./check "$c" --tier quick 2>&1 | grep -E "^(VIOLATION|KNOWN|C[0-9]+ quick|proof problem)" | cut -c1-300 )
done
git -C /repo checkout -- . 
rm -f /verif/replays/*.case.tmp
