#!/bin/bash
# usage: pick_fixes.sh Cnn  - cherry-picks the fix: commits of /tmp/ag-Cnn/repo into /repo (one by one) and appends
# the sandbox's new KNOWN_FINDINGS lines to /verif/KNOWN_FINDINGS.txt with the hashes rewritten.
P="$1"; R=/tmp/ag-$P/repo; S=/tmp/ag-$P/verif
base=$(git -C /repo merge-base HEAD $(git -C $R rev-parse HEAD))
map=""
for c in $(git -C $R log --format=%h --reverse $base..$(git -C $R rev-parse HEAD)); do
  if git -C /repo cherry-pick $(git -C $R rev-parse $c) >/dev/null 2>&1; then
    n=$(git -C /repo log --format=%h -1); echo "picked $c -> $n $(git -C /repo log --format=%s -1)"; map="$map -e s/$c/$n/"
  else echo "CONFLICT on $c"; git -C /repo cherry-pick --abort; exit 1; fi
done
diff <(sort /verif/KNOWN_FINDINGS.txt) <(sort $S/KNOWN_FINDINGS.txt) | grep '^>' | sed 's/^> //' | sed $map -e 's/^$//' >> /verif/KNOWN_FINDINGS.txt
tail -4 /verif/KNOWN_FINDINGS.txt | cut -c1-160
