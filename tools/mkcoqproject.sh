#!/bin/sh
# regenerate coq/_CoqProject and coq/Makefile from the files present
cd "$(dirname "$0")/../coq" || exit 1
{ echo "-Q . PV"; echo "-arg -w -arg -deprecated-since-8.16,-extraction-opaque-accessed,-extraction-reserved-identifier"; ls gen/*.v Model/*.v Spec/*.v Proofs/*.v Properties/*.v Extract/*.v 2>/dev/null; } > _CoqProject.new
if ! cmp -s _CoqProject.new _CoqProject 2>/dev/null; then mv _CoqProject.new _CoqProject; coq_makefile -f _CoqProject -o Makefile >/dev/null; else rm _CoqProject.new; [ -f Makefile ] || coq_makefile -f _CoqProject -o Makefile >/dev/null; fi
